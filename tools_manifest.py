#!/usr/bin/env python3
# Regenerates MANIFEST.json from the table below (kept in one place so it is always schema-valid).
import json, subprocess
props=[json.loads(l) for l in open('/verif/properties.jsonl')]
ids=[p["id"] for p in props]
CLAIMS = {
 "C04": ("Every built-in scalar CoerceIn is proved, for every dynamic Go type of the input, to return either an error or a value of the declared Go representation that denotes the same number/string/boolean (exact integer arithmetic, IEEE-754 floats).",
         "custom scalars are assumed to meet the InCoercer contract; strconv/time parsing results are unconstrained apart from bit-size; see evidence.assumptions",
         "4 C04"),
 "C05": ("Every built-in scalar CoerceOut is proved, per dynamic type of the resolver value, to return a value of the scalar's JSON representation with the same value (or its truncation for float->Int), and nil whenever it returns an error.",
         "fractional float -> Int truncation is a recorded known finding (pinned by the suite); custom scalars assumed to meet the OutCoercer contract",
         "4 C05"),
 "C09": ("skipSel is proved, for directive lists of any length and any variable map, to compute exactly the inclusion formula of the statement (loop invariant over a prefix spec function; termination by a decreasing measure).",
         "Type.Name and Selection.Directives are treated as pure accessors; directive uses produced by the parser are non-nil with a non-nil Directive (precondition)",
         "4 C09"),
}
NA = {
 "C16": "relational over orderings/partitions of whole loads: a function contract speaks about one call, and deriving the relation needs a functional grammar specification of the whole single-pass SDL parser (DESIGN.md section 4, C16)",
}
checks=[]
na=[]
for i in ids:
    if i in CLAIMS:
        text,note,ref=CLAIMS[i]
        checks.append({"property_id":i,"quick_cmd":"./check %s --tier quick"%i,"thorough_cmd":"./check %s --tier thorough"%i,
          "evidence_file":"/verif/evidence/%s.json"%i,"replay_cmd_template":"./check %s --replay {path}"%i,"engine":"govc",
          "level_claimed":{"category":"proof","text":text,"design_ref":"DESIGN.md section "+ref},
          "level_note":note,
          "technique":"contract-based deductive verification: weakest-precondition VCs generated from go/ssa of the real code against //@ contracts, discharged by z3 5.1 / z3 4.8 / cvc5"})
    else:
        na.append({"property_id":i,"reason":NA.get(i,"contracts not reached yet (build in progress); DESIGN.md section 9")})
hook=subprocess.run(["git","-C","/repo","log","--format=%H","--grep=^verif hook"],capture_output=True,text=True).stdout.split()
m={"version":1,
 "setup_cmd":"cd /verif/govc && GOFLAGS=-mod=mod GOPROXY=off GOSUMDB=off GOTOOLCHAIN=local go build -o /verif/bin/govc .",
 "hooks":{"guard":"verif","enable":"go/packages loads /repo/pkg/ggql with -tags=verif; the only guarded file is pkg/ggql/verif_contracts.go (//go:build verif, comments only)","baseline_off_cmd":"cd /repo && GOFLAGS=-mod=mod GOPROXY=off GOSUMDB=off go test -vet=off -count=1 ./...","source_commits":hook,"add_only":True},
 "engines":[{"name":"govc","path":"/verif/govc","serves_properties":sorted(CLAIMS),"kind_free_text":"contract-based deductive verifier for Go written for this task: VC generation over go/ssa (x/tools v0.29.0) of /repo's working tree, contracts in //@ comments, obligations discharged by z3-new 5.1.0, z3 4.8.12, cvc5 1.0.3"}],
 "checks":checks,"not_applicable":na,
 "notes":"Every check reloads /repo's working tree. Known findings: /verif/known_findings.json. Exit 2 = infrastructure error (claims nothing)."}
json.dump(m,open('/verif/MANIFEST.json','w'),indent=1)
