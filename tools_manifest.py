#!/usr/bin/env python3
# Regenerates MANIFEST.json from the table below (kept in one place so it is always schema-valid).
import json, subprocess
props=[json.loads(l) for l in open('/verif/properties.jsonl')]
ids=[p["id"] for p in props]
CLAIMS = {
 "C01": ("Contracts on ResolveExecutable, resolve, resolveFieldSels, resolveSels, resolveField, resolveList, resolveInline, resolveFragRef are discharged for all inputs: operation choice (unknown or ambiguous name runs no resolver), one response key per field (alias or name) and nothing else written to the result map, __typename, list results as long as the source list, null/depth cut-off.",
         "user resolvers are assumed deterministic and not to write ggql-owned memory; parser-established data-structure invariants and pure accessors are listed in evidence.assumptions; whole-response equality with a reference semantics (Exec) is not proved",
         "4 C01"),
 "C03": ("For 262 functions of the package (every scanner of parser.go / sdlparser.go / exeparser.go, the resolve walk, coercions, validators, registry, helpers): panic-freedom obligations (nil dereference, index and slice bounds, failed type assertion, nil-map store, division, comparison of uncomparable dynamic values) discharged on all paths for every byte sequence the reader can deliver; termination: every scanner loop carries a measure over a ghost model of the reader (bytes still to be delivered, lookahead byte, end-of-input mark) and is proved to consume input or stop, including the top-level definition loops of parseSDL and parseExe; recursion of the scanners (nested values, types, selection sets) and of the resolve walk (depth, function rank, structural height) is proved to descend a lexicographic measure; range loops by their index.",
         "reader model: finite input (#N bytes), a Read never answers (0, nil); stack use is proportional to nesting depth of the input (a measure, not a constant bound: 20M nested '[' still exhaust the stack); reflect preconditions (reflect.Value.Call argument matching) are a separate unclaimed class; 89 functions still lack shape preconditions for the sweep (contracts/SWEEP_TODO.txt); parser-established shape invariants are listed in evidence.assumptions",
         "4 C03"),
 "C04": ("Every built-in scalar CoerceIn is proved, for every dynamic Go type of the input, to return either an error or a value of the declared Go representation that denotes the same number/string/boolean (exact integer arithmetic, IEEE-754 floats).",
         "custom scalars are assumed to meet the InCoercer contract; strconv/time parsing results are unconstrained apart from bit-size; list/input-object/variable plumbing not yet under contract",
         "4 C04"),
 "C05": ("Every built-in scalar CoerceOut is proved, per dynamic type of the resolver value, to return a value of the scalar's JSON representation with the same value (or its truncation for float->Int), and nil whenever it returns an error; resolve() returns nil for a leaf whose coercion failed.",
         "fractional float -> Int truncation is a recorded known finding (pinned by the suite); custom scalars assumed to meet the OutCoercer contract",
         "4 C05"),
 "C06": ("Error.in prefixes exactly one segment; Errors.in prefixes every listed error exactly once (lists are proved duplicate-free through an allocation-order predicate with separately proved lemmas); resolveList prefixes the element index in every branch that resolves elements; every function of the resolve walk returns owned, fresh error lists.",
         "fmt.Errorf results are assumed to carry no *Error in their chain; errors.As is modelled as a deterministic chain lookup",
         "4 C06"),
 "C08": ("resolveInline/resolveFragRef: a fragment whose condition is a different type than the container contributes nothing (no key written, no resolver run, no error).",
         "only the not-applicable direction and the identity case are decided by the current contracts; conditions on interfaces/unions of the concrete type are not yet covered",
         "4 C08"),
 "C09": ("skipSel computes exactly the inclusion formula of the statement for directive lists of any length (loop invariant over a prefix spec function); resolveSels and ResolveExecutable call resolveField/resolveInline/resolveFragRef only for selections that are not skipped (call-site preconditions).",
         "Type.Name and Selection.Directives are treated as pure accessors; parser-established shape invariants listed in evidence",
         "4 C09"),
 "C10": ("getFieldDef looks the field up in the right table for each container kind; resolveField reports an error and runs no resolver for an undefined field; sortArgs reports every undeclared argument of an object field.",
         "non-object containers in sortArgs are recorded known findings; directive/type-condition checks in the validators not yet under contract",
         "4 C10"),
 "C11": ("Frame conditions (assigns clauses) of the functions of the resolve walk are checked store by store: apart from freshly allocated objects, the result map of the call and the declared caches, nothing is written.",
         "Field.ConType/Field.Args writes are declared at array granularity; the sortArgs write to Field.Args is a recorded known finding; the relational sentence (same response as a fresh parse) is a consequence of the frame, not proved as a two-run relation",
         "4 C11"),
 "C13": ("Validation rules are proved in both directions (error iff the rule is broken) for: names (blank, non-name character, leading digit, reserved prefix; byte-exact against the 256-entry character table), type names, IsInputType/IsOutputType against the recursive definition of input/output type, IsLocation, Locate per element kind, typeEqual against structural equality, uniqueness in the four name-indexed member lists (add refuses exactly the duplicates and never replaces an entry), Union.Validate, Base.validateFieldDefs / Interface.Validate (field and argument names, output type in field position, input type in argument position, non-empty), Input.Validate; Root.validate visits every registered type (core ones included) and returns an error iff some type's Validate reports one (loop invariant over the type list against the interface contract Type.Validate).",
         "Object.Validate interface conformance, Enum/Schema/Directive.Validate, validateDirUse, addTypes and ReplaceRefs are not yet under contract; 'names the offender' is not decided (error messages are opaque fmt.Errorf results); Locate(*Arg) is a recorded known finding",
         "4 C13"),
 "C17": ("Resolve of Scalar, Input, List, NonNull, Arg, InputField, FieldDef, EnumValue, Directive, Object, Interface, Union, Enum and Root (the __schema object) is proved against the introspection table of the statement, one postcondition per meta-field (kind, name, description, fields with and without includeDeprecated, interfaces, ofType, args, type, isDeprecated, deprecationReason, locations, null for the inapplicable fields); Nth/Len of the five list views; GetDirective, isDeprecated, getBoolArg; Interface.possibleTypes is proved sound and complete (exactly the registered object types that list the interface, each once) with nested-loop invariants; enumValues without includeDeprecated lists only non-deprecated values.",
         "the __type/__schema entry points in resolveField and Schema.Resolve are not yet under contract; the completeness direction of the deprecated filter (every current field/value is listed) is not claimed; Interface.fields without includeDeprecated returns deprecated fields too (recorded known finding); wrapper name (\"[T]\", \"T!\") is a recorded known finding pinned by the suite",
         "4 C17"),
 "C19": ("Registry contracts proved for all registry contents and all lengths: subscribe appends exactly the new subscription; Unsubscribe(id) leaves no matching subscriber, keeps every non-matching one, returns the number matched and calls each removed subscriber's clean-up exactly once and nobody else's; AddEvent sends exactly one message to every matching subscriber and none to the others, returns the number matched, removes exactly the subscribers whose Send failed (re-checking identity) and cleans each of them up exactly once. Ghost counters per subscriber (#send, #sendfail, #unsub) carry the call history; loop invariants over the in-place deletion idiom.",
         "Match is assumed a pure function of (subscriber, id) during one call; a subscriber is assumed registered at most once; relative order of the kept subscribers and delivery in registration order are not stated; the value sent is the result of resolve(event, subscription field) by construction of the loop body, not a separate postcondition; the all-histories statement follows from these per-operation contracts by induction on the history (not re-proved)",
         "4 C19"),
 "C20": ("Lock discipline of the registry proved on subscribe, Unsubscribe, AddEvent and their caller ResolveExecutable: every read and write of Root.subscriptions happens with root.subLock held by the executing thread (guarded-field obligations at each access), no double acquisition, every acquisition released on every return path (also per loop iteration), the resolve walk returns with the set of held mutexes unchanged; Unsubscribe leaves no matching subscriber registered when it returns.",
         "sequential semantics inside a critical section; linearizability of the two-phase publish and 'at most once per publish' under interleaving are not decided; callbacks (Match/Send/Unsubscribe, user resolvers) are assumed not to call back into the registry",
         "4 C20"),
 "C12": ("Lock discipline of the lazily discovered reflection bindings proved on assureType, getReflectType, metaCheck, regField, RegisterField and resolveReflect: every read and write of Object.meta, FieldDef.goField and FieldDef.method happens with the mutex of the same object / field definition held by the executing thread; no double acquisition (mutex identities are injective per object and field); every acquisition, including deferred unlocks, is released on every return path and per loop iteration; reflected resolver methods are called with no library mutex held; the whole resolve walk returns with the set of held mutexes unchanged.",
         "data-race freedom follows from the lock discipline by the standard lock-invariant argument under Go's DRF-SC guarantee (trusted); FieldDef.args (rewritten only by RegisterField at set-up time) and Input.meta are outside the claim; 'each response equals the response of the request run alone' is not decided",
         "4 C12"),
 "C14": ("ParseReader and AddTypes are proved to put back the type table and the directive table they found whenever they return an error, on every error path (syntax, duplicate, undefined reference, failed extension, validation, failing reader); the working copy they load into (typeList.dup) is proved to be a new object with its own list array and its own name index holding exactly the members of the source, and the source is not written, so the restored tables are the ones that were there before; AddTypes also leaves root.schema alone.",
         "root.schema after a failing ParseReader is a recorded known finding; writes by Extend into member lists of type objects shared between the saved and the working table (a failed extension) are not covered: the contracts decide the tables, not every object reachable from them; 'a later valid load behaves as if the failed one never happened' follows only for the tables",
         "4 C14"),
 "C07": ("The JSON writer is proved against a reference lexer for JSON text (RFC 8259) that runs over the ghost output of the io.Writer: writeString emits, for every Go string, exactly one well-formed JSON string token that decodes back to the string's characters (escapes, \\u00XX, raw UTF-8; invalid bytes as U+FFFD); writeValue and writeMap never emit a byte that JSON does not allow outside a string (structural characters, white space, number and literal characters only), object keys go through the same escaping, array elements are always separated by a comma in JSON mode. Envelope: ResolveReader returns a map whose keys are only data and errors and that has at least one of them, errors is a list; formOneErrorResult emits only message / locations / path / extensions, message is a string, locations only with line >= 1 and column >= 1.",
         "lexical, not grammatical, validity of the text outside strings (a number such as 1e-07.0 would pass); a failing writer is excluded (ghost count of write errors); strconv / time formatting results are trusted to consist of number / RFC 3339 characters; that a location lies on the token's line is not decided; non-emptiness of errors for wrapped error groups is outside the errors.As model",
         "4 C07"),
 "C18": ("JSON string writing: for every string content (control characters, quotes, backslashes, any UTF-8, invalid bytes) writeString's output is one JSON string token that the reference JSON decoder reads back as the same character sequence (proved for all strings by a loop invariant over the decoded prefix); elementSep gives a comma between JSON elements.",
         "the SDL direction (parse(write(v)) == v through ggql's own reader), separators of the tight SDL form and number round trips are not under contract; whole-value structure is covered only lexically (see C07)",
         "4 C18"),
}
NA = {
 "C02": "relational across three differently backed roots; the part that differs between the strategies (regField lookup, reflect.Value.Call, struct field reads) is reflect semantics for which the verifier has only trusted stubs, so 'same response' cannot be stated as a contract on one call (DESIGN.md section 11.6)",
 "C15": "lexical pairing contracts depend on the C18 writer contracts, not reached yet (DESIGN.md section 11.3)",
 "C16": "relational over orderings/partitions of whole loads: a function contract speaks about one call, and deriving the relation needs a functional grammar specification of the whole single-pass SDL parser (DESIGN.md section 4, C16)",
}
checks=[]
na=[]
for i in ids:
    if i in CLAIMS:
        text,note,ref=CLAIMS[i]
        checks.append({"property_id":i,"quick_cmd":"./check %s --tier quick"%i,"thorough_cmd":"./check %s --tier thorough"%i,
          "evidence_file":"/verif/evidence/%s.json"%i,"replay_cmd_template":"./check %s --replay {path}"%i,"engine":"govc",
          "level_claimed":{"category":"proof","text":text,"design_ref":"DESIGN.md section "+ref},
          "level_note":note,
          "technique":"contract-based deductive verification: weakest-precondition VCs generated from go/ssa of the real code against //@ contracts, discharged by z3 5.1 / z3 4.8 / cvc5"})
    else:
        na.append({"property_id":i,"reason":NA.get(i,"contracts not reached yet (build in progress); DESIGN.md section 9")})
hook=subprocess.run(["git","-C","/repo","log","--format=%H","--grep=^verif hook"],capture_output=True,text=True).stdout.split()
m={"version":1,
 "setup_cmd":"cd /verif/govc && GOFLAGS=-mod=mod GOPROXY=off GOSUMDB=off GOTOOLCHAIN=local go build -o /verif/bin/govc .",
 "hooks":{"guard":"verif","enable":"go/packages loads /repo/pkg/ggql with -tags=verif; the guarded files are pkg/ggql/verif_contracts*.go (//go:build verif; comments only, plus one ghost type declaration vSeq that has no values at run time)","baseline_off_cmd":"cd /repo && GOFLAGS=-mod=mod GOPROXY=off GOSUMDB=off go test -vet=off -count=1 ./...","source_commits":hook,"add_only":True},
 "engines":[{"name":"govc","path":"/verif/govc","serves_properties":sorted(CLAIMS),"kind_free_text":"contract-based deductive verifier for Go written for this task: VC generation over go/ssa (x/tools v0.29.0) of /repo's working tree, contracts in //@ comments, obligations discharged by z3-new 5.1.0, z3 4.8.12, cvc5 1.0.3"}],
 "checks":checks,"not_applicable":na,
 "notes":"Every check reloads /repo's working tree. Known findings: /verif/known_findings.json. Exit 2 = infrastructure error (claims nothing)."}
json.dump(m,open('/verif/MANIFEST.json','w'),indent=1)
