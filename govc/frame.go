package main

// Frame: symbolic encoding of one function body (top-level or inlined) into the Enc.
// Loops are cut at their headers (assert invariant; havoc; assume invariant); every block gets a
// path predicate; state variables (heap arrays, ghost counters) are versioned per block.

import (
	"fmt"
	"os"
	"go/ast"
	"go/token"
	"go/types"
	"sort"
	"strings"

	"golang.org/x/tools/go/ssa"
)

type State map[string]T

func (s State) clone() State {
	n := make(State, len(s))
	for k, v := range s {
		n[k] = v
	}
	return n
}

type LVKind int

const (
	lvNone LVKind = iota
	lvField
	lvElem
	lvCell
	lvGlobal
	lvStruct
	lvArray
)

type LV struct {
	kind  LVKind
	arr   string // state variable
	asort Sort   // its sort
	idx   T      // index into arr (field: struct address; cell: ref; elem: backing ptr)
	idx2  T      // elem: position in backing array
	off, pos T   // elem: idx2 == off + pos
	fresh bool   // root is an allocation of this frame
	root  ssa.Value
}

type loopInfo struct {
	header  *ssa.BasicBlock
	blocks  map[*ssa.BasicBlock]bool
	ordinal int
	spec    *LoopSpec
	mods    ModSet
	// filled at header encoding
	stAtHeader State
	measure    []T
	phiSyms    map[*ssa.Phi]T
	allocAtHdr T
	heldEntry  T // set of held mutexes when the loop was entered (loops are lock-balanced per iteration: checked)
}

type retRec struct {
	path    T
	st      State
	results []T
	pos     token.Pos
	vals    []ssa.Value // the returned SSA values (for path splitting of postcondition sub-goals)
}

type Frame struct {
	enc      *Enc
	p        *Program
	fn       *ssa.Function
	fname    string
	pfx      string
	top      bool
	depth    int
	con      *Contract
	vals     map[ssa.Value]T
	tuples   map[ssa.Value][]T
	structs  map[ssa.Value][]structLeaf // struct values held in SSA registers (copied field by field)
	lvs      map[ssa.Value]*LV
	entrySt  State
	outSt    map[*ssa.BasicBlock]State
	outPath  map[*ssa.BasicBlock]T
	edgePred map[[2]int]T
	loops    map[*ssa.BasicBlock]*loopInfo
	inLoop   map[*ssa.BasicBlock][]*loopInfo
	rets     []retRec
	params   map[string]T
	paramTy  map[string]types.Type
	// current block state while encoding
	cur      *ssa.BasicBlock
	st       State
	path     T
	pathAcc  []T
	lineCnt  map[string]int
	names    map[string][]nameRef
	iters    map[ssa.Value]*iterInfo
	held     map[string]bool
	oblPfx   string
	callStack []string
	resultNames []string
	resultTypes []types.Type
	defers   []deferred
	pendingFree []ssa.Value              // bindings of the closure about to be inlined
	freeBind    map[*ssa.FreeVar]ssa.Value // this (inlined closure) frame: free variable -> captured value in freeFrom
	freeFrom    *Frame
	recMeasure []T // entry value of the top-level function's recursion measure (function-level `decreases`)
	frameHook func(cur *Frame, lv *LV, addr ssa.Value, pos token.Pos)
	frameMapHook func(cur *Frame, mv ssa.Value, m T, mt *types.Map, pos token.Pos)
	frameAppendHook func(cur *Frame, arr string, s T, pos token.Pos)
	frameCallHook func(cur *Frame, callee string, ms ModSet, calleeLocs []assignLoc, hasAssigns bool, tr *Translator, pos token.Pos)
}

type structLeaf struct {
	arr   string
	asort Sort
	off   int64
	val   T
}

// structLeaves enumerates the flattened leaf fields of struct type t (own structs only).
func (f *Frame) structLeaves(t types.Type, off int64, out *[]structLeaf) {
	st, ok := structOf(t)
	if !ok || !f.p.ownStruct(t) {
		return
	}
	for i := 0; i < st.NumFields(); i++ {
		ft := st.Field(i).Type()
		fo := off + fieldOffset(st, i)
		if _, isStruct := structOf(ft); isStruct {
			if f.p.ownStruct(ft) {
				f.structLeaves(ft, fo, out)
			}
			continue
		}
		arr, asort := f.p.fieldArray(t, i)
		_, vs := arrParts(asort)
		f.enc.declSortOf(vs)
		// the array is indexed by the address of the directly containing struct
		*out = append(*out, structLeaf{arr: arr, asort: asort, off: off})
	}
}

func (f *Frame) loadStruct(addr T, t types.Type) []structLeaf {
	var leaves []structLeaf
	f.structLeaves(t, 0, &leaves)
	for i := range leaves {
		l := &leaves[i]
		l.val = f.enc.define(f.sym("sv"), Select(f.stGet(l.arr, l.asort), Add(addr, IntLit(l.off))))
	}
	return leaves
}

func (f *Frame) storeStruct(addr T, leaves []structLeaf) {
	for _, l := range leaves {
		f.stSet(l.arr, Store(f.stGet(l.arr, l.asort), Add(addr, IntLit(l.off)), l.val))
	}
}

type nameRef struct {
	val   ssa.Value
	block *ssa.BasicBlock
	idx   int
	addr  bool
}

type iterInfo struct {
	isMap  bool
	m      T // map ref or string
	mt     *types.Map
	stvar  string // visited-set / position state variable
	domain T      // domain snapshot for maps
}

func (f *Frame) sym(name string) string { return f.pfx + name }

// ---- state access ----

func (f *Frame) stGet(name string, sort Sort) T {
	if t, ok := f.st[name]; ok {
		return t
	}
	if old, ok := f.enc.stateSort[name]; ok && old != sort {
		panic(fmt.Sprintf("state var %s sort clash %s vs %s", name, old, sort))
	}
	f.enc.stateSort[name] = sort
	t := f.enc.declConst(name+"@0", sort)
	return t
}

func (f *Frame) refWf(name string, arr T, bound T) { f.enc.refWf(name, arr, bound) }

func stLookup(e *Enc, st State, name string) T {
	if t, ok := st[name]; ok {
		return t
	}
	sort, ok := e.stateSort[name]
	if !ok {
		panic("unknown state var " + name)
	}
	return e.declConst(name+"@0", sort)
}

func (f *Frame) stSet(name string, t T) {
	f.enc.stateSort[name] = t.Sort
	if strings.HasPrefix(t.S, "(") {
		t = f.enc.define(name+"@", t)
	}
	f.st[name] = t
	if name != "alloc" {
		f.enc.verAlloc[t.S] = f.alloc()
		f.refWf(name, t, f.alloc())
	}
}

// boundOf: allocation counter bounding every reference stored in this version of a state array.
func (f *Frame) boundOf(arr T) T {
	if b, ok := f.enc.verAlloc[arr.S]; ok {
		return b
	}
	if strings.HasSuffix(strings.Trim(arr.S, "|"), "@0") {
		return f.enc.declConst("alloc@0", SInt)
	}
	return f.alloc()
}

func (f *Frame) alloc() T { return f.stGet("alloc", SInt) }

func (f *Frame) newRef() T {
	r := f.enc.define(f.sym("ref"), Add(f.alloc(), IntLit(1)))
	f.st["alloc"] = r
	f.enc.stateSort["alloc"] = SInt
	return r
}

// ---- path handling ----

func (f *Frame) assume(t T) {
	if t.S == "true" {
		return
	}
	if strings.Contains(t.S, "(forall ") || strings.Contains(t.S, "(exists ") {
		// quantified assumption: named, and included in a query only when relevant to its goal
		t = f.enc.lazyAssume(t)
	}
	f.pathAcc = append(f.pathAcc, t)
}

func (f *Frame) curPath() T {
	if len(f.pathAcc) > 0 {
		all := append([]T{f.path}, f.pathAcc...)
		f.path = f.enc.definePath(f.sym(fmt.Sprintf("P%d", f.cur.Index)), And(all...))
		f.pathAcc = nil
	}
	return f.path
}

func (f *Frame) oblige(class, kind string, pos token.Pos, cond T) *Obl {
	if cond.S == "true" {
		return nil
	}
	line := f.p.srcLine(pos)
	base := class + ":" + kind
	if line != "" {
		base += "@" + line
	}
	if f.oblPfx != "" {
		base = f.oblPfx + ">" + base
	}
	if f.lineCnt == nil {
		f.lineCnt = map[string]int{}
	}
	n := f.lineCnt[base]
	f.lineCnt[base]++
	name := base
	if n > 0 {
		name = fmt.Sprintf("%s#%d", base, n)
	}
	o := &Obl{Name: name, Class: class, Func: f.topName(), Path: f.curPath(), Cond: cond, Pos: f.p.pos(pos), SrcLine: line}
	o.Extra = append(o.Extra, f.enc.extras...)
	o.Extra = append(o.Extra, f.pointUses()...)
	f.enc.obls = append(f.enc.obls, o)
	// a failed panic check or callee precondition ends the execution, so the condition holds on
	// every continuation; frame/lock/overflow checks do not stop execution and are NOT assumed
	if class == "panic" || class == "pre" || class == "reflect" {
		f.assume(cond)
	}
	return o
}

func (f *Frame) topName() string {
	if len(f.callStack) > 0 {
		return f.callStack[0]
	}
	return f.fname
}

// ---- values ----

func (f *Frame) val(v ssa.Value) T {
	if t, ok := f.vals[v]; ok {
		return t
	}
	switch x := v.(type) {
	case *ssa.Const:
		return f.constVal(x)
	case *ssa.Global:
		// address of a global: opaque int id
		return f.enc.declConst("gaddr_"+x.Name(), SInt)
	case *ssa.Function:
		return f.enc.declConst("fn_"+sanitize(x.String()), SInt)
	case *ssa.Builtin:
		return Zero
	}
	panic(fmt.Sprintf("%s: value %s (%T) used before definition", f.fname, v.Name(), v))
}

func (f *Frame) constVal(c *ssa.Const) T {
	s := f.p.sortOf(c.Type())
	if c.Value == nil {
		return f.enc.zero(s)
	}
	switch s {
	case SBool:
		if c.Value.String() == "true" {
			return True
		}
		return False
	case SInt:
		if bi, ok := constBig(c); ok {
			return BigLit(bi)
		}
	case SF32, SF64:
		return constFloat(c.Value, s)
	case SStr:
		return f.p.strLit(f.enc, constString(c))
	}
	f.enc.note("constant of unsupported sort %s", s)
	return f.enc.declConst(f.enc.fresh("const"), s)
}

func (f *Frame) setVal(v ssa.Value, t T) T {
	name := f.sym(v.Name())
	var sym T
	if _, dup := f.enc.decls[q(name)]; dup {
		sym = f.enc.define(name, t)
	} else {
		sym = f.enc.defineNamed(name, t)
	}
	f.vals[v] = sym
	f.typeFacts(sym, v.Type())
	return sym
}

func (f *Frame) freshVal(v ssa.Value) T {
	name := f.sym(v.Name())
	if _, dup := f.enc.decls[q(name)]; dup {
		name = f.enc.fresh(name)
	}
	sym := f.enc.declConst(name, f.p.sortOf(v.Type()))
	f.enc.declSortOf(sym.Sort)
	f.vals[v] = sym
	f.typeFacts(sym, v.Type())
	return sym
}

func (e *Enc) declSortOf(s Sort) {
	if isOpaque(s) {
		if _, ok := e.decls[string(s)]; !ok {
			e.decls[string(s)] = fmt.Sprintf("(declare-sort %s 0)", s)
		}
	}
}

func (f *Frame) freshOf(base string, t types.Type) T {
	sym := f.enc.declConst(f.enc.fresh(f.sym(base)), f.p.sortOf(t))
	f.enc.declSortOf(sym.Sort)
	f.typeFacts(sym, t)
	return sym
}

// typeFacts: type invariants of a value of Go type t (ranges of sized integers).
func (f *Frame) typeFacts(sym T, t types.Type) {
	if b, ok := t.Underlying().(*types.Basic); ok {
		if r, ok := rangeOf(b); ok && sym.Sort == SInt {
			f.enc.factAbout(sym, inRange(sym, r))
		}
	}
	switch t.Underlying().(type) {
	case *types.Pointer, *types.Map:
		if sym.Sort == SInt {
			f.enc.factAbout(sym, Le(Zero, sym))
		}
	}
}

// ---- struct layout helpers ----

func (f *Frame) fieldLV(base T, st types.Type, i int) (*LV, T) {
	s, _ := structOf(st)
	arr, asort := f.p.fieldArray(st, i)
	addr := Add(base, IntLit(fieldOffset(s, i)))
	return &LV{kind: lvField, arr: arr, asort: asort, idx: base}, addr
}

func (f *Frame) zeroInit(addr T, t types.Type) {
	switch u := t.Underlying().(type) {
	case *types.Struct:
		if !f.p.ownStruct(t) {
			return
		}
		for i := 0; i < u.NumFields(); i++ {
			ft := u.Field(i).Type()
			if _, ok := structOf(ft); ok {
				f.zeroInit(Add(addr, IntLit(fieldOffset(u, i))), ft)
				continue
			}
			arr, asort := f.p.fieldArray(t, i)
			_, vs := arrParts(asort)
			f.enc.declSortOf(vs)
			f.stSet(arr, Store(f.stGet(arr, asort), addr, f.enc.zero(vs)))
		}
	case *types.Array:
		es := f.p.sortOf(u.Elem())
		f.enc.declSortOf(es)
		arr := f.p.sliceArray(u.Elem())
		as := ArrSort(SInt, ArrSort(SInt, es))
		f.stSet(arr, Store(f.stGet(arr, as), addr, ConstArr(ArrSort(SInt, es), f.enc.zero(es))))
	default:
		s := f.p.sortOf(t)
		f.enc.declSortOf(s)
		arr := f.p.cellArray(t)
		as := ArrSort(SInt, s)
		f.stSet(arr, Store(f.stGet(arr, as), addr, f.enc.zero(s)))
	}
}

func isReflectValue(t types.Type) bool {
	n, ok := t.(*types.Named)
	return ok && n.Obj().Pkg() != nil && n.Obj().Pkg().Path() == "reflect" && n.Obj().Name() == "Value"
}

// lvOf returns the location descriptor for a pointer-valued SSA value.
func (f *Frame) lvOf(addr ssa.Value) *LV {
	if lv, ok := f.lvs[addr]; ok {
		return lv
	}
	if g, ok := addr.(*ssa.Global); ok {
		t := g.Type().Underlying().(*types.Pointer).Elem()
		s := f.p.sortOf(t)
		f.enc.declSortOf(s)
		return &LV{kind: lvGlobal, arr: "G_" + g.Name(), asort: s}
	}
	pt, ok := addr.Type().Underlying().(*types.Pointer)
	if !ok {
		panic("lvOf non-pointer " + addr.String())
	}
	if _, ok := structOf(pt.Elem()); ok && (f.p.ownStruct(pt.Elem()) || !isReflectValue(pt.Elem())) {
		return &LV{kind: lvStruct, idx: f.val(addr)}
	}
	if _, ok := pt.Elem().Underlying().(*types.Array); ok {
		return &LV{kind: lvArray, idx: f.val(addr)}
	}
	// (a *reflect.Value is a cell holding an opaque value)
	s := f.p.sortOf(pt.Elem())
	f.enc.declSortOf(s)
	return &LV{kind: lvCell, arr: f.p.cellArray(pt.Elem()), asort: ArrSort(SInt, s), idx: f.val(addr)}
}

func (f *Frame) load(lv *LV, t types.Type) T {
	switch lv.kind {
	case lvField, lvCell:
		return Select(f.stGet(lv.arr, lv.asort), lv.idx)
	case lvElem:
		_, inner := arrParts(lv.asort)
		_, es := arrParts(inner)
		return atTerm(f.enc, es, Select(f.stGet(lv.arr, lv.asort), lv.idx), lv.off, lv.pos)
	case lvGlobal:
		return f.stGet(lv.arr, lv.asort)
	}
	f.enc.note("%s: whole-struct/array load abstracted", f.fname)
	return f.freshOf("ld", t)
}

func (f *Frame) store(lv *LV, v T) {
	switch lv.kind {
	case lvField, lvCell:
		f.stSet(lv.arr, Store(f.stGet(lv.arr, lv.asort), lv.idx, v))
	case lvElem:
		a := f.stGet(lv.arr, lv.asort)
		f.stSet(lv.arr, Store(a, lv.idx, Store(Select(a, lv.idx), lv.idx2, v)))
	case lvGlobal:
		f.stSet(lv.arr, v)
	default:
		f.enc.note("%s: whole-struct/array store abstracted", f.fname)
	}
}

// ---- loops ----

func (f *Frame) findLoops() {
	f.loops = map[*ssa.BasicBlock]*loopInfo{}
	f.inLoop = map[*ssa.BasicBlock][]*loopInfo{}
	var headers []*ssa.BasicBlock
	for _, b := range f.fn.Blocks {
		for _, s := range b.Succs {
			if s.Dominates(b) {
				if f.loops[s] == nil {
					f.loops[s] = &loopInfo{header: s, blocks: map[*ssa.BasicBlock]bool{s: true}}
					headers = append(headers, s)
				}
				// collect natural loop of back edge b->s
				li := f.loops[s]
				var stack []*ssa.BasicBlock
				if !li.blocks[b] {
					li.blocks[b] = true
					stack = append(stack, b)
				}
				for len(stack) > 0 {
					x := stack[len(stack)-1]
					stack = stack[:len(stack)-1]
					for _, pr := range x.Preds {
						if !li.blocks[pr] {
							li.blocks[pr] = true
							stack = append(stack, pr)
						}
					}
				}
			}
		}
	}
	sort.Slice(headers, func(i, j int) bool { return f.headerPos(headers[i]) < f.headerPos(headers[j]) })
	for i, h := range headers {
		li := f.loops[h]
		li.ordinal = i
		if f.con != nil && f.con.Loops != nil {
			li.spec = f.con.Loops[i]
		}
		// automatic (checked) invariant: the hidden index of a range loop never drops below -1
		for _, in := range h.Instrs {
			if phi, ok := in.(*ssa.Phi); ok && phi.Comment == "rangeindex" {
				e, _ := parseExpr("0 <= rangeindex + 1")
				spec := &LoopSpec{}
				if li.spec != nil {
					*spec = *li.spec
				}
				spec.Invs = append([]*Clause{{Label: "auto-range", Src: "0 <= rangeindex + 1", Expr: e}}, spec.Invs...)
				li.spec = spec
				break
			}
		}
		// automatic termination measure of a `for range` loop over a slice: bound - rangeindex, where bound is the
		// loop-invariant length the hidden index is compared with in the header (checked like a written measure)
		if li.spec == nil || len(li.spec.Decreases) == 0 {
			if bound := rangeBound(h); bound != "" {
				src := "rangebound - rangeindex"
				spec := &LoopSpec{}
				if li.spec != nil {
					*spec = *li.spec
				}
				spec.Decreases = []*Clause{{Label: "auto-range", Src: src, Expr: &EBinary{"-", &EIdent{"rangebound"}, &EIdent{"rangeindex"}}}}
				li.spec = spec
			}
		}
		// automatic (checked) invariant: an accumulator slice built only by append/make/nil is nil or freshly allocated
		for _, in := range h.Instrs {
			phi, ok := in.(*ssa.Phi)
			if !ok {
				break
			}
			if _, isSlice := phi.Type().Underlying().(*types.Slice); !isSlice || phi.Comment == "" {
				continue
			}
			if !accumulatorPhi(phi, map[ssa.Value]bool{}) {
				continue
			}
			src := fmt.Sprintf("%s == nil || fresh(%s)", phi.Comment, phi.Comment)
			e, err := parseExpr(src)
			if err != nil {
				continue
			}
			spec := &LoopSpec{}
			if li.spec != nil {
				*spec = *li.spec
			}
			spec.Invs = append([]*Clause{{Label: "auto-fresh-" + phi.Comment, Src: src, Expr: e}}, spec.Invs...)
			li.spec = spec
		}
		// `check accumulate`: inside a nested loop the error list is no shorter than at the head of the enclosing iteration
		// (automatic, checked like a written invariant; it carries the outer loop's accumulation across the inner loop)
		if _, acc := f.checkProps("accumulate"); acc {
			nested := false
			for _, h2 := range headers {
				if l2 := f.loops[h2]; l2 != li && l2.blocks[h] {
					for _, in2 := range h2.Instrs {
						if p2, ok := in2.(*ssa.Phi); ok && f.isErrResult(p2.Comment) {
							nested = true
						}
					}
				}
			}
			for _, in := range h.Instrs {
				phi, ok := in.(*ssa.Phi)
				if !ok {
					break
				}
				if !nested || !f.isErrResult(phi.Comment) {
					continue
				}
				src := fmt.Sprintf("len(%s) >= atouter(len(%s))", phi.Comment, phi.Comment)
				e, err := parseExpr(src)
				if err != nil {
					continue
				}
				spec := &LoopSpec{}
				if li.spec != nil {
					*spec = *li.spec
				}
				props, _ := f.checkProps("accumulate")
				spec.Invs = append([]*Clause{{Label: "auto-accumulates-" + phi.Comment, Src: src, Expr: e, Props: props}}, spec.Invs...)
				li.spec = spec
			}
		}
		li.mods = ModSet{}
		inScope := func(in ssa.Instruction) bool { return li.blocks[in.Block()] }
		for b := range li.blocks {
			for _, in := range b.Instrs {
				f.p.instrMods(in, inScope, li.mods)
			}
			f.inLoop[b] = append(f.inLoop[b], li)
		}
	}
}

func (f *Frame) headerPos(h *ssa.BasicBlock) int {
	// order loops by header block index (follows source order in go/ssa)
	return h.Index
}

// rpo: reverse post-order ignoring back edges.
func (f *Frame) rpo() []*ssa.BasicBlock {
	seen := map[*ssa.BasicBlock]bool{}
	var post []*ssa.BasicBlock
	var dfs func(b *ssa.BasicBlock)
	dfs = func(b *ssa.BasicBlock) {
		seen[b] = true
		for _, s := range b.Succs {
			if s.Dominates(b) {
				continue
			}
			if !seen[s] {
				dfs(s)
			}
		}
		post = append(post, b)
	}
	dfs(f.fn.Blocks[0])
	for i, j := 0, len(post)-1; i < j; i, j = i+1, j-1 {
		post[i], post[j] = post[j], post[i]
	}
	return post
}

// ---- block entry ----

func (f *Frame) edgeCond(from *ssa.BasicBlock, succIdx int) T {
	last := from.Instrs[len(from.Instrs)-1]
	if iff, ok := last.(*ssa.If); ok {
		c := f.val(iff.Cond)
		if succIdx == 0 {
			return c
		}
		return Not(c)
	}
	return True
}

func (f *Frame) finishBlock(b *ssa.BasicBlock) {
	f.outSt[b] = f.st
	f.outPath[b] = f.curPath()
	for i, s := range b.Succs {
		ep := f.enc.definePath(f.sym(fmt.Sprintf("E%d_%d", b.Index, s.Index)), And(f.outPath[b], f.edgeCond(b, i)))
		f.edgePred[[2]int{b.Index, s.Index}] = ep
		// an edge that leaves a loop (normal end, break, return from inside): the loop's exit clauses are obligations here
		for _, li := range f.inLoop[b] {
			if li.spec != nil && len(li.spec.Exits) > 0 && !li.blocks[s] && s != li.header {
				f.exitEdge(b, s, li, ep)
			}
		}
		if s.Dominates(b) {
			f.backEdge(b, s, ep)
		}
	}
}

func (f *Frame) mergeStates(preds []*ssa.BasicBlock, b *ssa.BasicBlock) State {
	if len(preds) == 1 {
		return f.outSt[preds[0]].clone()
	}
	keys := map[string]bool{}
	for _, p := range preds {
		for k := range f.outSt[p] {
			keys[k] = true
		}
	}
	out := State{}
	for _, k := range sortedKeys(keys) {
		var terms []T
		same := true
		for _, p := range preds {
			t := stLookup(f.enc, f.outSt[p], k)
			terms = append(terms, t)
			if t.S != terms[0].S {
				same = false
			}
		}
		if same {
			out[k] = terms[0]
			continue
		}
		acc := terms[len(terms)-1]
		for i := len(terms) - 2; i >= 0; i-- {
			acc = Ite(f.edgePred[[2]int{preds[i].Index, b.Index}], terms[i], acc)
		}
		out[k] = f.enc.define(k+"@", acc)
	}
	return out
}

func (f *Frame) enterBlock(b *ssa.BasicBlock) bool {
	f.cur = b
	f.pathAcc = nil
	if b.Index == 0 {
		return true
	}
	var preds []*ssa.BasicBlock
	seen := map[*ssa.BasicBlock]bool{}
	for _, p := range b.Preds {
		if b.Dominates(p) && f.loops[b] != nil {
			continue // back edge
		}
		if _, ok := f.outPath[p]; !ok {
			continue // unreachable or not encoded
		}
		if seen[p] {
			continue
		}
		seen[p] = true
		preds = append(preds, p)
	}
	if len(preds) == 0 {
		return false
	}
	var eps []T
	for _, p := range preds {
		eps = append(eps, f.edgePred[[2]int{p.Index, b.Index}])
	}
	f.path = f.enc.definePath(f.sym(fmt.Sprintf("B%d", b.Index)), Or(eps...))
	f.st = f.mergeStates(preds, b)
	for k, v := range f.st {
		if k != "alloc" {
			if _, ok := f.enc.verAlloc[v.S]; !ok && !strings.HasSuffix(strings.Trim(v.S, "|"), "@0") {
				f.enc.verAlloc[v.S] = f.alloc()
				f.refWf(k, v, f.alloc())
			}
		}
	}
	if li := f.loops[b]; li != nil {
		f.loopHeader(li, preds)
		return true
	}
	// phis
	for _, in := range b.Instrs {
		phi, ok := in.(*ssa.Phi)
		if !ok {
			break
		}
		var acc T
		first := true
		for i := len(b.Preds) - 1; i >= 0; i-- {
			p := b.Preds[i]
			if !seen[p] {
				continue
			}
			v := f.val(phi.Edges[i])
			if first {
				acc = v
				first = false
			} else {
				acc = Ite(f.edgePred[[2]int{p.Index, b.Index}], v, acc)
			}
		}
		sym := f.setVal(phi, acc)
		f.loadFactsB(sym, phi.Type(), f.alloc())
		f.mergeLV(phi, b, seen)
	}
	return true
}

// mergeLV: a phi of pointers keeps a location descriptor only when all incoming agree in kind.
func (f *Frame) mergeLV(phi *ssa.Phi, b *ssa.BasicBlock, seen map[*ssa.BasicBlock]bool) {
	if _, ok := phi.Type().Underlying().(*types.Pointer); !ok {
		return
	}
}

// loopHeader: cut the loop. preds are the entry edges (already merged into f.st / f.path).
func (f *Frame) loopHeader(li *loopInfo, preds []*ssa.BasicBlock) {
	b := li.header
	if li.spec == nil {
		li.spec = &LoopSpec{}
		f.enc.note("%s: loop %d has no invariant (only the loop guard is known inside)", f.fname, li.ordinal)
	}
	// 1. invariant on entry: phis take their entry-edge values.
	entryEnv := map[*ssa.Phi]T{}
	seen := map[*ssa.BasicBlock]bool{}
	for _, p := range preds {
		seen[p] = true
	}
	for _, in := range b.Instrs {
		phi, ok := in.(*ssa.Phi)
		if !ok {
			break
		}
		var acc T
		first := true
		for i := len(b.Preds) - 1; i >= 0; i-- {
			p := b.Preds[i]
			if !seen[p] || b.Dominates(p) {
				continue
			}
			v := f.val(phi.Edges[i])
			if first {
				acc = v
				first = false
			} else {
				acc = Ite(f.edgePred[[2]int{p.Index, b.Index}], v, acc)
			}
		}
		entryEnv[phi] = acc
	}
	allocEntry := f.alloc()
	var entrySplits [][]T
	if len(preds) == 1 {
		entrySplits = f.joinSplits(preds[0], nil)
	}
	for k, inv := range li.spec.Invs {
		tr := f.translator(b, entryEnv, f.st, li)
		c := tr.boolExpr(inv.Expr)
		o := f.obligeNamed("inv", fmt.Sprintf("loop%d.%s@entry", li.ordinal, clauseName(inv, k)), b.Instrs[0].Pos(), c, inv.Props)
		o.Splits = entrySplits
		f.addUses(o, li.spec.Uses, tr)
		f.unassumeLast()
	}
	// 2. havoc
	li.phiSyms = map[*ssa.Phi]T{}
	for _, in := range b.Instrs {
		phi, ok := in.(*ssa.Phi)
		if !ok {
			break
		}
		li.phiSyms[phi] = f.freshVal(phi)
	}
	pre := f.st
	f.st = pre.clone()
	for _, name := range sortedModKeys(li.mods) {
		kind := li.mods[name]
		sort, ok := f.enc.stateSort[name]
		if !ok {
			if strings.HasPrefix(name, "IT_") {
				continue
			}
			sort = f.readSortSafe(name)
			if sort == "" {
				f.enc.note("%s: state variable %s of unknown sort is not versioned across loop %d", f.fname, name, li.ordinal)
				continue
			}
			f.enc.stateSort[name] = sort
			f.enc.declSortOf(sort)
		}
		old := stLookup(f.enc, pre, name)
		nv := f.enc.declConst(f.enc.fresh(name+"@L"), sort)
		f.st[name] = nv
		if name == "alloc" {
			f.enc.factAbout(nv, Le(old, nv))
		} else if kind == ModFresh && strings.HasPrefix(string(sort), "(Array Int") {
			f.enc.addFact(nv.S, fmt.Sprintf("(assert (forall ((r!f Int)) (! (=> (<= r!f %s) (= (select %s r!f) (select %s r!f))) :pattern ((select %s r!f)))))", allocEntry.S, nv.S, old.S, nv.S))
		}
	}
	f.stableAcross(li.mods, nil, pre, allocEntry)
	f.preserveLocalCells(li, pre)
	if _, ok := li.mods["held"]; ok {
		if hv, ok := f.st["held"]; ok {
			// automatic (checked on every back edge) invariant: every iteration releases what it acquires
			li.heldEntry = stLookup(f.enc, pre, "held")
			f.assume(Eq(hv, li.heldEntry))
		}
	}
	li.stAtHeader = f.st.clone()
	li.allocAtHdr = f.alloc()
	for phi, sym := range li.phiSyms {
		f.loadFactsB(sym, phi.Type(), li.allocAtHdr)
	}
	for k, v := range f.st {
		if k != "alloc" && strings.Contains(v.S, "@L") {
			f.enc.verAlloc[v.S] = f.alloc()
			f.refWf(k, v, f.alloc())
		}
	}
	// 3. assume invariant
	for _, inv := range li.spec.Invs {
		tr := f.translator(b, li.phiSyms, f.st, li)
		c := tr.boolExpr(inv.Expr)
		if c.S == "true" && inv.Label != "auto-range" && mentionsIdent(inv.Expr) {
			panic(trErr{fmt.Sprintf("loop %d invariant %q is vacuous at the loop head (translates to true): %s", li.ordinal, inv.Label, inv.Src)})
		}
		f.assume(c)
	}
	{
		tr := f.translator(b, li.phiSyms, f.st, li)
		for _, u := range li.spec.Uses {
			f.enc.extras = append(f.enc.extras, tr.tryUse(u)...)
		}
	}
	// measure at header
	li.measure = nil
	for _, d := range li.spec.Decreases {
		tr := f.translator(b, li.phiSyms, f.st, li)
		m := tr.expr(d.Expr)
		li.measure = append(li.measure, f.enc.define(f.sym(fmt.Sprintf("M%d", li.ordinal)), m.t))
	}
}

func sortedModKeys(m ModSet) []string {
	ks := make([]string, 0, len(m))
	for k := range m {
		ks = append(ks, k)
	}
	sort.Strings(ks)
	return ks
}

func clauseName(c *Clause, k int) string {
	if c.Label != "" {
		return c.Label
	}
	return fmt.Sprint(k)
}

// backEdge: assert invariant and measure decrease on edge from->header.
// exitEdge: class `inv` obligations for the `exit` clauses of a loop on one edge leaving it. Names resolve as in the
// loop body at the end of block from; the loop's header phis denote their values at the head of the iteration being left.
func (f *Frame) exitEdge(from, to *ssa.BasicBlock, li *loopInfo, ep T) {
	savedPath, savedAcc := f.path, f.pathAcc
	f.path, f.pathAcc = ep, nil
	tag := fmt.Sprintf("b%d", from.Index)
	for k, ec := range li.spec.Exits {
		tr := f.translator(from, li.phiSyms, f.st, li)
		c := tr.boolExpr(ec.Expr)
		o := f.obligeNamed("inv", fmt.Sprintf("loop%d.exit.%s@%s", li.ordinal, clauseName(ec, k), tag), token.NoPos, c, ec.Props)
		f.addUses(o, li.spec.Uses, tr)
		f.unassumeLast()
	}
	f.path, f.pathAcc = savedPath, savedAcc
}

func (f *Frame) backEdge(from, h *ssa.BasicBlock, ep T) {
	li := f.loops[h]
	if li == nil {
		return
	}
	env := map[*ssa.Phi]T{}
	for _, in := range h.Instrs {
		phi, ok := in.(*ssa.Phi)
		if !ok {
			break
		}
		for i, p := range h.Preds {
			if p == from {
				env[phi] = f.val(phi.Edges[i])
				break
			}
		}
	}
	savedPath, savedAcc := f.path, f.pathAcc
	f.path, f.pathAcc = ep, nil
	tag := fmt.Sprintf("b%d", from.Index)
	pos := from.Instrs[len(from.Instrs)-1].Pos()
	if !pos.IsValid() {
		pos = h.Instrs[0].Pos()
	}
	// the block that closes the loop often joins the paths of the body (if / else): prove the invariant per joined path
	splits := f.joinSplits(from, h)
	for k, inv := range li.spec.Invs {
		tr := f.translator(from, env, f.st, li)
		c := tr.boolExpr(inv.Expr)
		o := f.obligeNamed("inv", fmt.Sprintf("loop%d.%s@back.%s", li.ordinal, clauseName(inv, k), tag), token.NoPos, c, inv.Props)
		o.Splits = splits
		f.addUses(o, li.spec.Uses, tr)
		f.unassumeLast()
	}
	if li.heldEntry.S != "" {
		f.obligeNamed("inv", fmt.Sprintf("loop%d.auto-locks-balanced@back.%s", li.ordinal, tag), token.NoPos, Eq(stLookup(f.enc, f.st, "held"), li.heldEntry), nil)
		f.unassumeLast()
	}
	for k, pc := range li.spec.Preserves {
		tr := f.translator(from, env, f.st, li)
		c := tr.boolExpr(pc.Expr)
		o := f.obligeNamed("inv", fmt.Sprintf("loop%d.preserves.%s@back.%s", li.ordinal, clauseName(pc, k), tag), token.NoPos, c, pc.Props)
		f.addUses(o, li.spec.Uses, tr)
		f.unassumeLast()
	}
	if props, ok := f.checkProps("accumulate"); ok {
		// `check accumulate`: a named result of type []error that is carried round this loop only grows: an iteration
		// does not drop what earlier iterations collected
		res := f.fn.Signature.Results()
		for i := 0; i < res.Len(); i++ {
			sl, isSl := res.At(i).Type().Underlying().(*types.Slice)
			if !isSl || types.TypeString(sl.Elem(), nil) != "error" || res.At(i).Name() == "" {
				continue
			}
			for _, in := range h.Instrs {
				phi, ok := in.(*ssa.Phi)
				if !ok {
					break
				}
				nv, have := env[phi]
				ov, have2 := li.phiSyms[phi]
				if phi.Comment != res.At(i).Name() || !have || !have2 {
					continue
				}
				f.obligeNamed("acc", fmt.Sprintf("loop%d.accumulates(%s)@back.%s", li.ordinal, phi.Comment, tag), token.NoPos, Le(SLen(ov), SLen(nv)), props)
				f.unassumeLast()
			}
		}
	}
	if len(li.spec.Decreases) > 0 {
		var now []T
		for _, d := range li.spec.Decreases {
			tr := f.translator(from, env, f.st, li)
			now = append(now, tr.expr(d.Expr).t)
		}
		// lexicographic decrease with lower bound 0 on the component that decreases
		var disj []T
		for i := range now {
			var conj []T
			for j := 0; j < i; j++ {
				conj = append(conj, Eq(now[j], li.measure[j]))
			}
			conj = append(conj, Lt(now[i], li.measure[i]), Le(Zero, li.measure[i]))
			disj = append(disj, And(conj...))
		}
		tr := f.translator(from, env, f.st, li)
		o := f.obligeNamed("term", fmt.Sprintf("loop%d.decreases@back.%s", li.ordinal, tag), token.NoPos, Or(disj...), li.spec.Decreases[0].Props)
		o.Splits = splits
		f.addUses(o, li.spec.Uses, tr)
		f.unassumeLast()
	}
	f.path, f.pathAcc = savedPath, savedAcc
}

// preserveLocalCells: address-taken locals of this function (cells) that no instruction of the loop stores to, neither
// directly nor through a closure that captured them, keep their value across the loop's havoc of the cell arrays.
func (f *Frame) preserveLocalCells(li *loopInfo, pre State) {
	written := map[ssa.Value]bool{}
	var scanFn func(fn *ssa.Function, bind map[*ssa.FreeVar]ssa.Value, depth int)
	scanInstr := func(in ssa.Instruction, bind map[*ssa.FreeVar]ssa.Value, depth int) {
		switch x := in.(type) {
		case *ssa.Store:
			root := rootOf(x.Addr)
			if fv, ok := root.(*ssa.FreeVar); ok && bind != nil {
				root = bind[fv]
			}
			if root != nil {
				written[root] = true
			}
		case *ssa.MakeClosure:
			if cf, ok := x.Fn.(*ssa.Function); ok && depth < 3 {
				nb := map[*ssa.FreeVar]ssa.Value{}
				for i, fv := range cf.FreeVars {
					if i < len(x.Bindings) {
						b := x.Bindings[i]
						if bfv, ok := b.(*ssa.FreeVar); ok && bind != nil {
							b = bind[bfv]
						}
						nb[fv] = b
					}
				}
				scanFn(cf, nb, depth+1)
			}
		case ssa.CallInstruction:
			// a local whose address is passed to a call may be written by the callee
			for _, a := range x.Common().Args {
				root := rootOf(a)
				if fv, ok := root.(*ssa.FreeVar); ok && bind != nil {
					root = bind[fv]
				}
				if _, isAlloc := root.(*ssa.Alloc); isAlloc {
					written[root] = true
				}
			}
		}
	}
	scanFn = func(fn *ssa.Function, bind map[*ssa.FreeVar]ssa.Value, depth int) {
		for _, b := range fn.Blocks {
			for _, in := range b.Instrs {
				scanInstr(in, bind, depth)
			}
		}
	}
	// closures made anywhere in the function may be called inside the loop: scan every closure, and the loop's own code
	for _, b := range f.fn.Blocks {
		for _, in := range b.Instrs {
			if mc, ok := in.(*ssa.MakeClosure); ok {
				scanInstr(mc, nil, 0)
			}
			if li.blocks[b] {
				scanInstr(in, nil, 0)
			}
		}
	}
	for v, lv := range f.lvs {
		al, ok := v.(*ssa.Alloc)
		if !ok || lv.kind != lvCell || written[al] {
			continue
		}
		if !(al.Block() == li.header || al.Block().Dominates(li.header)) || li.blocks[al.Block()] {
			continue
		}
		nv, ok1 := f.st[lv.arr]
		old, ok2 := pre[lv.arr]
		if !ok1 || !ok2 || nv.S == old.S {
			continue
		}
		f.enc.factAbout(nv, Eq(Select(nv, lv.idx), Select(old, lv.idx)))
	}
}

// joinSplits: case analysis for an obligation stated at the end of block b: the incoming edges of the nearest join
// block at or above b (following single-predecessor chains, never crossing the loop header stop).
func (f *Frame) joinSplits(b, stop *ssa.BasicBlock) [][]T {
	if os.Getenv("GOVC_NOBESPLIT") != "" {
		return nil
	}
	join := b
	for hops := 0; hops < 6 && len(join.Preds) == 1 && f.loops[join] == nil && join.Preds[0] != stop; hops++ {
		join = join.Preds[0]
	}
	n := len(join.Preds)
	if n < 2 || n > 14 || f.loops[join] != nil {
		return nil
	}
	var splits [][]T
	for _, p := range join.Preds {
		if ep, ok := f.edgePred[[2]int{p.Index, join.Index}]; ok {
			splits = append(splits, []T{ep})
		}
	}
	if len(splits) != n {
		return nil
	}
	return splits
}

func (f *Frame) unassumeLast() {
	if len(f.pathAcc) > 0 {
		f.pathAcc = f.pathAcc[:len(f.pathAcc)-1]
	}
}

// pointUses: function-level `use` clauses instantiated at the current program point (those whose names
// resolve here; the others are skipped).
func (f *Frame) pointUses() (out []string) {
	if f.con == nil || len(f.con.Uses) == 0 || f.cur == nil || !f.top {
		return nil
	}
	for _, u := range f.con.Uses {
		func() {
			defer func() {
				if r := recover(); r != nil {
					if _, ok := r.(trErr); ok {
						return
					}
					panic(r)
				}
			}()
			tr := f.translator(f.cur, nil, f.st, nil)
			out = append(out, tr.useInstance(u)...)
		}()
	}
	return out
}

// obligeNamed: obligation with an explicit stable name (contract-derived).
func (f *Frame) obligeNamed(class, name string, pos token.Pos, cond T, props []string) *Obl {
	full := class + ":" + name
	if f.oblPfx != "" {
		full = f.oblPfx + ">" + full
	}
	o := &Obl{Name: full, Class: class, Func: f.topName(), Path: f.curPath(), Cond: cond, Pos: f.p.pos(pos)}
	o.Extra = append(o.Extra, f.enc.extras...)
	o.Props = props
	f.enc.obls = append(f.enc.obls, o)
	f.assume(cond)
	return o
}

func (f *Frame) addUses(o *Obl, uses []*Clause, tr *Translator) {
	if o == nil {
		return
	}
	for _, u := range uses {
		o.Extra = append(o.Extra, tr.tryUse(u)...)
	}
}

// ---- debug names ----

func (f *Frame) collectNames() {
	f.names = map[string][]nameRef{}
	info := f.p.pkg.TypesInfo
	// value of every expression that has a debug reference
	type where struct {
		val   ssa.Value
		block *ssa.BasicBlock
		idx   int
	}
	exprVal := map[ast.Expr]where{}
	// key / value variables of range statements: their defining debug reference carries the element just read
	rangeVars := map[*ast.Ident]bool{}
	if syn := f.fn.Syntax(); syn != nil {
		ast.Inspect(syn, func(n ast.Node) bool {
			if rs, ok := n.(*ast.RangeStmt); ok && rs.Tok == token.DEFINE {
				for _, e := range []ast.Expr{rs.Key, rs.Value} {
					if id, ok := e.(*ast.Ident); ok {
						rangeVars[id] = true
					}
				}
			}
			return true
		})
	}
	for _, b := range f.fn.Blocks {
		for i, in := range b.Instrs {
			if d, ok := in.(*ssa.DebugRef); ok {
				if !d.IsAddr {
					exprVal[d.Expr] = where{d.X, b, i}
				}
				if id, ok := d.Expr.(*ast.Ident); ok {
					// a defining occurrence records the value BEFORE the definition: not usable
					if info != nil {
						if _, isDef := info.Defs[id]; isDef && !d.IsAddr && !rangeVars[id] {
							continue
						}
					}
					f.names[id.Name] = append(f.names[id.Name], nameRef{d.X, b, i, d.IsAddr})
				}
			}
		}
	}
	// definitions and assignments `x := e`, `x = e`: the value of e right after it was computed
	if syn := f.fn.Syntax(); syn != nil {
		ast.Inspect(syn, func(n ast.Node) bool {
			as, ok := n.(*ast.AssignStmt)
			if !ok || len(as.Lhs) != len(as.Rhs) {
				return true
			}
			for i, l := range as.Lhs {
				id, ok := l.(*ast.Ident)
				if !ok || id.Name == "_" {
					continue
				}
				rhs := as.Rhs[i]
				for {
					if p, ok := rhs.(*ast.ParenExpr); ok {
						rhs = p.X
						continue
					}
					break
				}
				if w, ok := exprVal[rhs]; ok {
					f.names[id.Name] = append(f.names[id.Name], nameRef{w.val, w.block, w.idx, false})
				}
			}
			return true
		})
	}
	// keep program order within a block (block index, then instruction index)
	for k := range f.names {
		refs := f.names[k]
		sort.SliceStable(refs, func(i, j int) bool {
			if refs[i].block.Index != refs[j].block.Index {
				return refs[i].block.Index < refs[j].block.Index
			}
			return refs[i].idx < refs[j].idx
		})
		f.names[k] = refs
	}
}

// rangeBoundVal: in the header of a `for range` loop over a slice: `t1 = rangeindex + 1; t2 = t1 < len; if t2 ...`
// returns the SSA value of len (defined outside the loop), or nil.
func rangeBoundVal(h *ssa.BasicBlock) ssa.Value {
	var idx *ssa.Phi
	for _, in := range h.Instrs {
		if phi, ok := in.(*ssa.Phi); ok && phi.Comment == "rangeindex" {
			idx = phi
		}
	}
	if idx == nil {
		return nil
	}
	for _, in := range h.Instrs {
		if bo, ok := in.(*ssa.BinOp); ok && bo.Op == token.LSS {
			if inc, ok := bo.X.(*ssa.BinOp); ok && inc.Op == token.ADD && inc.X == idx {
				if yi, ok := bo.Y.(ssa.Instruction); !ok || yi.Block() != h {
					return bo.Y
				}
			}
		}
	}
	return nil
}

func rangeBound(h *ssa.BasicBlock) string {
	if v := rangeBoundVal(h); v != nil {
		return v.Name()
	}
	return ""
}

// mentionsIdent: the contract expression refers to at least one program variable.
func mentionsIdent(e Expr) bool {
	switch x := e.(type) {
	case *EIdent:
		return true
	case *EUnary:
		return mentionsIdent(x.X)
	case *EBinary:
		return mentionsIdent(x.X) || mentionsIdent(x.Y)
	case *ECall:
		for _, a := range x.Args {
			if mentionsIdent(a) {
				return true
			}
		}
	case *ESel:
		return mentionsIdent(x.X)
	case *EIndex:
		return mentionsIdent(x.X) || mentionsIdent(x.I)
	case *EQuant:
		return mentionsIdent(x.Body)
	case *ESlice:
		return mentionsIdent(x.X)
	}
	return false
}

// accumulatorPhi: every value flowing into the phi is nil, a make, an append result, or another such phi.
func accumulatorPhi(v ssa.Value, seen map[ssa.Value]bool) bool {
	if seen[v] {
		return true
	}
	seen[v] = true
	switch x := v.(type) {
	case *ssa.Const:
		return x.Value == nil
	case *ssa.MakeSlice:
		return true
	case *ssa.Call:
		if b, ok := x.Call.Value.(*ssa.Builtin); ok && b.Name() == "append" {
			return true
		}
		return false
	case *ssa.Phi:
		for _, e := range x.Edges {
			if !accumulatorPhi(e, seen) {
				return false
			}
		}
		return true
	}
	return false
}


// isErrResult: name is a named result of the function with type []error
func (f *Frame) isErrResult(name string) bool {
	if name == "" {
		return false
	}
	res := f.fn.Signature.Results()
	for i := 0; i < res.Len(); i++ {
		if res.At(i).Name() == name {
			sl, ok := res.At(i).Type().Underlying().(*types.Slice)
			return ok && types.TypeString(sl.Elem(), nil) == "error"
		}
	}
	return false
}
