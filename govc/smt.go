package main

// SMT term construction. Terms are strings tagged with a sort; every SSA value
// gets its own named constant so terms stay small.

import (
	"fmt"
	"go/constant"
	"go/types"
	"math"
	"math/big"
	"sort"
	"strings"
)

type Sort string

const (
	SBool  Sort = "Bool"
	SInt   Sort = "Int"
	SF32   Sort = "(_ FloatingPoint 8 24)"
	SF64   Sort = "(_ FloatingPoint 11 53)"
	SStr   Sort = "Str"
	SIface Sort = "Iface"
	SSlice Sort = "Slice"
	SReal  Sort = "Real"
)

func ArrSort(k, v Sort) Sort { return Sort(fmt.Sprintf("(Array %s %s)", k, v)) }

// T is an SMT term with its sort.
type T struct {
	S    string
	Sort Sort
}

func (t T) String() string { return t.S }

func mk(sort Sort, format string, args ...interface{}) T {
	return T{S: fmt.Sprintf(format, args...), Sort: sort}
}

var (
	True  = T{"true", SBool}
	False = T{"false", SBool}
	NilI  = T{"nilI", SIface}
	Zero  = T{"0", SInt}
)

func IntLit(n int64) T {
	if n < 0 {
		return T{fmt.Sprintf("(- %d)", -n), SInt}
	}
	return T{fmt.Sprintf("%d", n), SInt}
}

func BigLit(n *big.Int) T {
	if n.Sign() < 0 {
		return T{fmt.Sprintf("(- %s)", new(big.Int).Neg(n).String()), SInt}
	}
	return T{n.String(), SInt}
}

func And(ts ...T) T {
	var parts []string
	for _, t := range ts {
		if t.S == "true" {
			continue
		}
		if t.S == "false" {
			return False
		}
		parts = append(parts, t.S)
	}
	switch len(parts) {
	case 0:
		return True
	case 1:
		return T{parts[0], SBool}
	}
	return T{"(and " + strings.Join(parts, " ") + ")", SBool}
}

func Or(ts ...T) T {
	var parts []string
	for _, t := range ts {
		if t.S == "false" {
			continue
		}
		if t.S == "true" {
			return True
		}
		parts = append(parts, t.S)
	}
	switch len(parts) {
	case 0:
		return False
	case 1:
		return T{parts[0], SBool}
	}
	return T{"(or " + strings.Join(parts, " ") + ")", SBool}
}

func Not(t T) T {
	if t.S == "true" {
		return False
	}
	if t.S == "false" {
		return True
	}
	return T{"(not " + t.S + ")", SBool}
}

func Implies(a, b T) T {
	if a.S == "true" {
		return b
	}
	if a.S == "false" || b.S == "true" {
		return True
	}
	return T{"(=> " + a.S + " " + b.S + ")", SBool}
}

func Eq(a, b T) T {
	if a.Sort != b.Sort {
		panic(fmt.Sprintf("Eq sort mismatch: %s:%s vs %s:%s", a.S, a.Sort, b.S, b.Sort))
	}
	if a.S == b.S {
		return True
	}
	if a.Sort == SF32 || a.Sort == SF64 {
		// structural equality (used for definitions); Go == is fp.eq, see FEq.
		return T{"(= " + a.S + " " + b.S + ")", SBool}
	}
	return T{"(= " + a.S + " " + b.S + ")", SBool}
}

func Ite(c, a, b T) T {
	if a.Sort != b.Sort {
		panic(fmt.Sprintf("Ite sort mismatch: %s:%s vs %s:%s", a.S, a.Sort, b.S, b.Sort))
	}
	if c.S == "true" {
		return a
	}
	if c.S == "false" {
		return b
	}
	if a.S == b.S {
		return a
	}
	return T{"(ite " + c.S + " " + a.S + " " + b.S + ")", a.Sort}
}

func App(sort Sort, f string, args ...T) T {
	if len(args) == 0 {
		return T{f, sort}
	}
	parts := make([]string, len(args))
	for i, a := range args {
		parts[i] = a.S
	}
	return T{"(" + f + " " + strings.Join(parts, " ") + ")", sort}
}

func Add(a, b T) T {
	if b.S == "0" {
		return a
	}
	if a.S == "0" {
		return b
	}
	return App(SInt, "+", a, b)
}
func Sub(a, b T) T {
	if b.S == "0" {
		return a
	}
	return App(SInt, "-", a, b)
}
func Lt(a, b T) T { return App(SBool, "<", a, b) }
func Le(a, b T) T { return App(SBool, "<=", a, b) }

// elemSort of an array sort "(Array K V)".
func arrParts(s Sort) (Sort, Sort) {
	str := string(s)
	if !strings.HasPrefix(str, "(Array ") {
		panic("not an array sort: " + str)
	}
	body := str[len("(Array ") : len(str)-1]
	// split at top level space
	depth := 0
	for i, c := range body {
		switch c {
		case '(':
			depth++
		case ')':
			depth--
		case ' ':
			if depth == 0 {
				return Sort(body[:i]), Sort(body[i+1:])
			}
		}
	}
	panic("bad array sort " + str)
}

func Select(a, i T) T {
	_, v := arrParts(a.Sort)
	return App(v, "select", a, i)
}
func Store(a, i, v T) T {
	k, vs := arrParts(a.Sort)
	if i.Sort != k || v.Sort != vs {
		panic(fmt.Sprintf("Store sort mismatch: %s <- [%s:%s] %s:%s", a.Sort, i.S, i.Sort, v.S, v.Sort))
	}
	return App(a.Sort, "store", a, i, v)
}
// ConstArr: constant array. For element values that are not SMT literals (uninterpreted sorts) cvc5
// rejects (as const ...), so a declared array constant with a quantified definition is used instead.
var zeroArrays = map[string]string{} // symbol -> axiom

func ConstArr(s Sort, v T) T {
	switch v.S {
	case "true", "false", "0":
		return T{fmt.Sprintf("((as const %s) %s)", s, v.S), s}
	}
	if strings.HasPrefix(v.S, "(_ +zero") || strings.HasPrefix(v.S, "(mkslice") {
		return T{fmt.Sprintf("((as const %s) %s)", s, v.S), s}
	}
	k, _ := arrParts(s)
	name := "zarr_" + sortSuffix(s) + "_" + sanitizeSym(v.S)
	zeroArrays[name] = fmt.Sprintf("(declare-const %s %s)\n(assert (forall ((k!z %s)) (! (= (select %s k!z) %s) :pattern ((select %s k!z)))))\n", name, s, k, name, v.S, name)
	return T{name, s}
}

func sanitizeSym(s string) string {
	var b strings.Builder
	for _, c := range s {
		if c >= 'a' && c <= 'z' || c >= 'A' && c <= 'Z' || c >= '0' && c <= '9' {
			b.WriteRune(c)
		} else {
			b.WriteByte('_')
		}
	}
	return b.String()
}

// Slice accessors. sliceParts remembers the components of symbols defined as (mkslice ...) so that
// accessor applications simplify syntactically (fewer arithmetic terms for the solver to match on).
var sliceParts = map[string][4]T{}

func slicePart(s T, i int, fn string) T {
	if p, ok := sliceParts[s.S]; ok {
		return p[i]
	}
	if s.S == NilSlice.S {
		return Zero
	}
	return App(SInt, fn, s)
}
func SPtr(s T) T { return slicePart(s, 0, "sptr") }
func SOff(s T) T { return slicePart(s, 1, "soff") }
func SLen(s T) T { return slicePart(s, 2, "slen") }
func SCap(s T) T { return slicePart(s, 3, "scap") }
func MkSlice(p, o, l, c T) T {
	t := App(SSlice, "mkslice", p, o, l, c)
	sliceParts[t.S] = [4]T{p, o, l, c}
	return t
}

var NilSlice = T{"(mkslice 0 0 0 0)", SSlice}

// sortSuffix gives a short identifier-safe name for a sort (for heap array names).
func sortSuffix(s Sort) string {
	switch s {
	case SBool:
		return "Bool"
	case SInt:
		return "Int"
	case SF32:
		return "F32"
	case SF64:
		return "F64"
	case SStr:
		return "Str"
	case SIface:
		return "Iface"
	case SSlice:
		return "Slice"
	}
	r := strings.NewReplacer("(", "", ")", "", " ", "_")
	return r.Replace(string(s))
}

func q(name string) string {
	// quote a symbol if needed
	for _, c := range name {
		if !(c >= 'a' && c <= 'z' || c >= 'A' && c <= 'Z' || c >= '0' && c <= '9' || c == '_') {
			return "|" + name + "|"
		}
	}
	return name
}

// ---- floating point literals ----

func f64Lit(f float64) T {
	b := math.Float64bits(f)
	return T{fmt.Sprintf("(fp #b%01b #b%011b #b%052b)", b>>63, (b>>52)&0x7ff, b&((1<<52)-1)), SF64}
}
func f32Lit(f float32) T {
	b := math.Float32bits(f)
	return T{fmt.Sprintf("(fp #b%01b #b%08b #b%023b)", b>>31, (b>>23)&0xff, b&((1<<23)-1)), SF32}
}

func constFloat(v constant.Value, sort Sort) T {
	f, _ := constant.Float64Val(constant.ToFloat(v))
	if sort == SF32 {
		return f32Lit(float32(f))
	}
	return f64Lit(f)
}

// ---- integer ranges ----

type intRange struct {
	lo, hi *big.Int // inclusive
	bits   int
	signed bool
}

func rangeOf(b *types.Basic) (intRange, bool) {
	mk := func(bits int, signed bool) intRange {
		one := big.NewInt(1)
		if signed {
			hi := new(big.Int).Lsh(one, uint(bits-1))
			lo := new(big.Int).Neg(hi)
			hi = new(big.Int).Sub(hi, one)
			return intRange{lo, hi, bits, true}
		}
		hi := new(big.Int).Lsh(one, uint(bits))
		hi.Sub(hi, one)
		return intRange{big.NewInt(0), hi, bits, false}
	}
	switch b.Kind() {
	case types.Int, types.Int64:
		return mk(64, true), true
	case types.Int8:
		return mk(8, true), true
	case types.Int16:
		return mk(16, true), true
	case types.Int32:
		return mk(32, true), true
	case types.Uint, types.Uint64, types.Uintptr:
		return mk(64, false), true
	case types.Uint8:
		return mk(8, false), true
	case types.Uint16:
		return mk(16, false), true
	case types.Uint32:
		return mk(32, false), true
	case types.UntypedInt, types.UntypedRune:
		return mk(64, true), true
	}
	return intRange{}, false
}

func inRange(t T, r intRange) T {
	return And(Le(BigLit(r.lo), t), Le(t, BigLit(r.hi)))
}

// wrap x into range r (two's complement truncation).
func wrapTo(x T, r intRange) T {
	mod := new(big.Int).Lsh(big.NewInt(1), uint(r.bits))
	if r.signed {
		half := new(big.Int).Lsh(big.NewInt(1), uint(r.bits-1))
		return mk(SInt, "(- (mod (+ %s %s) %s) %s)", x.S, half.String(), mod.String(), half.String())
	}
	return mk(SInt, "(mod %s %s)", x.S, mod.String())
}

// symbols extracts the identifiers (simple and |quoted|) occurring in an SMT string.
func symbolsOf(s string, out map[string]bool) {
	i := 0
	n := len(s)
	for i < n {
		c := s[i]
		switch {
		case c == '|':
			j := i + 1
			for j < n && s[j] != '|' {
				j++
			}
			out[s[i:j+1]] = true
			i = j + 1
		case c == '(' || c == ')' || c == ' ' || c == '\n' || c == '\t':
			i++
		case c == '"':
			j := i + 1
			for j < n && s[j] != '"' {
				j++
			}
			i = j + 1
		default:
			j := i
			for j < n {
				d := s[j]
				if d == '(' || d == ')' || d == ' ' || d == '\n' || d == '\t' || d == '|' {
					break
				}
				j++
			}
			out[s[i:j]] = true
			i = j
		}
	}
}

func sortedKeys(m map[string]bool) []string {
	ks := make([]string, 0, len(m))
	for k := range m {
		ks = append(ks, k)
	}
	sort.Strings(ks)
	return ks
}
