package main

import (
	"bytes"
	"context"
	"fmt"
	"os"
	"os/exec"
	"path/filepath"
	"strings"
	"sync"
	"time"
)

type SolveResult struct {
	Status  string // unsat, sat, unknown, timeout, error
	Solver  string
	Seconds float64
	Output  string
	Model   string
	Agree   []string // other solvers that returned the same verdict (thorough)
	Conflict string
}

type solverSpec struct {
	name string
	args func(file string, timeoutS int, seed int) []string
}

var solvers = []solverSpec{
	{"z3-new-5.1.0", func(file string, t int, seed int) []string {
		return []string{"z3-new", fmt.Sprintf("-T:%d", t), fmt.Sprintf("smt.random_seed=%d", seed), fmt.Sprintf("sat.random_seed=%d", seed), file}
	}},
	{"cvc5-1.0.3", func(file string, t int, seed int) []string {
		return []string{"cvc5", fmt.Sprintf("--tlimit=%d", t*1000), fmt.Sprintf("--seed=%d", seed), "--fp-exp", file}
	}},
	{"z3-4.8.12", func(file string, t int, seed int) []string {
		return []string{"z3", fmt.Sprintf("-T:%d", t), fmt.Sprintf("smt.random_seed=%d", seed), file}
	}},
}

func runSolver(ctx context.Context, sp solverSpec, file string, timeoutS int, seed int) SolveResult {
	args := sp.args(file, timeoutS, seed)
	cctx, cancel := context.WithTimeout(ctx, time.Duration(timeoutS+2)*time.Second)
	defer cancel()
	start := time.Now()
	cmd := exec.CommandContext(cctx, args[0], args[1:]...)
	var out bytes.Buffer
	cmd.Stdout = &out
	cmd.Stderr = &out
	err := cmd.Run()
	el := time.Since(start).Seconds()
	text := out.String()
	first := strings.TrimSpace(strings.SplitN(text, "\n", 2)[0])
	res := SolveResult{Solver: sp.name, Seconds: el, Output: text}
	switch first {
	case "unsat", "sat", "unknown":
		res.Status = first
	default:
		switch {
		case strings.Contains(text, "timeout") || cctx.Err() != nil:
			res.Status = "timeout"
		case err != nil || strings.Contains(text, "error"):
			res.Status = "error"
		default:
			res.Status = "unknown"
		}
	}
	return res
}

// solve: staged portfolio. want = "unsat" for proof obligations, "sat" for cover checks.
func solve(dir string, id int, query string, want string, timeoutS int, seed int, crossCheck bool) SolveResult {
	file := filepath.Join(dir, fmt.Sprintf("q%05d.smt2", id))
	full := "(set-logic ALL)\n" + query
	if err := os.WriteFile(file, []byte(full), 0o644); err != nil {
		return SolveResult{Status: "error", Output: err.Error()}
	}
	ctx := context.Background()
	first := runSolver(ctx, solvers[0], file, min(timeoutS, 10), seed)
	var results []SolveResult
	results = append(results, first)
	decided := func(r SolveResult) bool { return r.Status == "sat" || r.Status == "unsat" }
	if !decided(first) || crossCheck {
		// race the others
		var wg sync.WaitGroup
		var mu sync.Mutex
		rctx, cancel := context.WithCancel(ctx)
		for _, sp := range solvers[1:] {
			wg.Add(1)
			go func(sp solverSpec) {
				defer wg.Done()
				r := runSolver(rctx, sp, file, timeoutS, seed)
				mu.Lock()
				results = append(results, r)
				if decided(r) && !crossCheck {
					cancel()
				}
				mu.Unlock()
			}(sp)
		}
		wg.Wait()
		cancel()
		if !decided(first) {
			// retry the first solver with the full budget if nobody decided
			any := false
			for _, r := range results {
				if decided(r) {
					any = true
				}
			}
			if !any && timeoutS > 10 {
				results = append(results, runSolver(ctx, solvers[0], file, timeoutS, seed+1))
			}
		}
	}
	var best *SolveResult
	for i := range results {
		r := &results[i]
		if !decided(*r) {
			continue
		}
		if best == nil {
			best = r
			continue
		}
		if r.Status != best.Status {
			best.Conflict = fmt.Sprintf("%s says %s but %s says %s", best.Solver, best.Status, r.Solver, r.Status)
		} else {
			best.Agree = append(best.Agree, r.Solver)
		}
	}
	if best == nil {
		r := results[0]
		for _, x := range results {
			if x.Status == "timeout" {
				r = x
			}
		}
		var all []string
		for _, x := range results {
			all = append(all, fmt.Sprintf("%s: %s (%.1fs)", x.Solver, x.Status, x.Seconds))
		}
		r.Output = strings.Join(all, "; ")
		return r
	}
	if best.Status == "sat" && want == "unsat" {
		// fetch a model from z3-new
		mfile := filepath.Join(dir, fmt.Sprintf("q%05d_model.smt2", id))
		_ = os.WriteFile(mfile, []byte("(set-option :produce-models true)\n"+full+"(get-model)\n"), 0o644)
		mr := runSolver(ctx, solvers[0], mfile, min(timeoutS, 10), seed)
		if mr.Status == "sat" {
			best.Model = mr.Output
		}
	}
	return *best
}
