package main

import (
	"runtime"
	"bytes"
	"context"
	"fmt"
	"os"
	"os/exec"
	"path/filepath"
	"regexp"
	"sync"
	"sync/atomic"
	"strings"
	"time"
)

type SolveResult struct {
	Status  string // unsat, sat, unknown, timeout, error
	Solver  string
	Seconds float64
	Output  string
	Model   string
	Agree   []string // other solvers that returned the same verdict (thorough)
	Conflict string
	FailedConjunct string
	FailedPath string
}

type solverSpec struct {
	name string
	args func(file string, timeoutS int, seed int) []string
}

var solvers = []solverSpec{
	{"z3-new-5.1.0", func(file string, t int, seed int) []string {
		return []string{"z3-new", fmt.Sprintf("-T:%d", t), fmt.Sprintf("smt.random_seed=%d", seed), fmt.Sprintf("sat.random_seed=%d", seed), file}
	}},
	{"cvc5-1.0.3", func(file string, t int, seed int) []string {
		return []string{"cvc5", fmt.Sprintf("--tlimit=%d", t*1000), fmt.Sprintf("--seed=%d", seed), "--fp-exp", file}
	}},
	{"z3-4.8.12", func(file string, t int, seed int) []string {
		return []string{"z3", fmt.Sprintf("-T:%d", t), fmt.Sprintf("smt.random_seed=%d", seed), file}
	}},
}

// procSlots bounds the number of solver processes running at once to the number of cores, so that a solver's
// (wall-clock) time limit measures its own work and not the scheduler's: without it the short first attempts starve
// when many obligations, sub-goals and raced solvers overlap.
var procSlots = make(chan struct{}, max(2, runtime.NumCPU()))

func runSolver(ctx context.Context, sp solverSpec, file string, timeoutS int, seed int) SolveResult {
	select {
	case procSlots <- struct{}{}:
		defer func() { <-procSlots }()
	case <-ctx.Done():
		return SolveResult{Solver: sp.name, Status: "cancelled"}
	}
	args := sp.args(file, timeoutS, seed)
	cctx, cancel := context.WithTimeout(ctx, time.Duration(timeoutS+2)*time.Second)
	defer cancel()
	start := time.Now()
	cmd := exec.CommandContext(cctx, args[0], args[1:]...)
	var out bytes.Buffer
	cmd.Stdout = &out
	cmd.Stderr = &out
	err := cmd.Run()
	el := time.Since(start).Seconds()
	text := out.String()
	// the verdict is the first line that is not a warning (z3 prints pattern warnings before its answer)
	first := ""
	for _, ln := range strings.Split(text, "\n") {
		ln = strings.TrimSpace(ln)
		if ln == "" || strings.HasPrefix(ln, "WARNING:") {
			continue
		}
		first = ln
		break
	}
	res := SolveResult{Solver: sp.name, Seconds: el, Output: text}
	switch first {
	case "unsat", "sat", "unknown":
		res.Status = first
	default:
		switch {
		case strings.Contains(text, "timeout") || cctx.Err() != nil:
			res.Status = "timeout"
		case err != nil || strings.Contains(text, "error"):
			res.Status = "error"
		default:
			res.Status = "unknown"
		}
	}
	return res
}

// splitConj: flatten a top-level (and ...) term into its conjuncts.
func splitConj(t string) []string {
	t = strings.TrimSpace(t)
	if strings.HasPrefix(t, "(=> ") {
		// (=> P (and A B)) is split into (=> P A), (=> P B)
		parts := topLevelArgs(t[4 : len(t)-1])
		if len(parts) == 2 {
			cs := splitConj(parts[1])
			if len(cs) > 1 {
				out := make([]string, len(cs))
				for i, c := range cs {
					out[i] = "(=> " + parts[0] + " " + c + ")"
				}
				return out
			}
		}
		return []string{t}
	}
	if !strings.HasPrefix(t, "(and ") {
		return []string{t}
	}
	inner := t[5 : len(t)-1]
	var parts []string
	depth, start := 0, 0
	inBar := false
	for i := 0; i < len(inner); i++ {
		c := inner[i]
		switch {
		case c == '|':
			inBar = !inBar
		case inBar:
		case c == '(':
			depth++
		case c == ')':
			depth--
		case c == ' ' && depth == 0:
			if i > start {
				parts = append(parts, inner[start:i])
			}
			start = i + 1
		}
	}
	if start < len(inner) {
		parts = append(parts, inner[start:])
	}
	var out []string
	for _, p := range parts {
		out = append(out, splitConj(p)...)
	}
	return out
}

// topLevelArgs splits "a b (c d) |e f|" into its top-level s-expressions.
func topLevelArgs(inner string) []string {
	var parts []string
	depth, start := 0, 0
	inBar := false
	for i := 0; i < len(inner); i++ {
		c := inner[i]
		switch {
		case c == '|':
			inBar = !inBar
		case inBar:
		case c == '(':
			depth++
		case c == ')':
			depth--
		case c == ' ' && depth == 0:
			if i > start {
				parts = append(parts, inner[start:i])
			}
			start = i + 1
		}
	}
	if start < len(inner) {
		parts = append(parts, inner[start:])
	}
	return parts
}

type attempt struct {
	sp      solverSpec
	seed    int
	timeout int
}

// race runs the attempts concurrently; the first decided answer wins and cancels the rest.
func race(file string, atts []attempt) (SolveResult, []SolveResult) {
	ctx, cancel := context.WithCancel(context.Background())
	defer cancel()
	ch := make(chan SolveResult, len(atts))
	for _, a := range atts {
		go func(a attempt) { ch <- runSolver(ctx, a.sp, file, a.timeout, a.seed) }(a)
	}
	var all []SolveResult
	var winner *SolveResult
	for range atts {
		r := <-ch
		all = append(all, r)
		if winner == nil && (r.Status == "sat" || r.Status == "unsat") {
			w := r
			winner = &w
			cancel()
		}
	}
	if winner != nil {
		return *winner, all
	}
	return SolveResult{Status: "undecided"}, all
}

// stripQuant replaces every quantified subterm by true (used for cover checks only: the
// quantifier-free part of the assumptions must be satisfiable along the path).
func stripQuant(s string) string {
	var b strings.Builder
	i := 0
	for i < len(s) {
		if strings.HasPrefix(s[i:], "(forall ") || strings.HasPrefix(s[i:], "(exists ") {
			depth := 0
			j := i
			for j < len(s) {
				if s[j] == '(' {
					depth++
				} else if s[j] == ')' {
					depth--
					if depth == 0 {
						break
					}
				}
				j++
			}
			b.WriteString("true")
			i = j + 1
			continue
		}
		b.WriteByte(s[i])
		i++
	}
	return b.String()
}

// solveOne: one SMT file through the staged portfolio. Proof search on these VCs is bimodal (an
// attempt either succeeds within a fraction of a second or diverges), so many short attempts with
// different seeds are raced before the long ones.
func solveOne(file string, timeoutS int, seed int, crossCheck bool) SolveResult {
	z3n, cvc, z3o := solvers[0], solvers[1], solvers[2]
	short := min(timeoutS, 4)
	// most obligations are decided in a few milliseconds: one cheap attempt before racing
	first := runSolver(context.Background(), z3n, file, 1, seed)
	if (first.Status == "sat" || first.Status == "unsat") && !crossCheck {
		return first
	}
	best, all := race(file, []attempt{{z3n, seed, short}, {z3o, seed, short}, {cvc, seed, short}, {z3n, seed + 1, short}})
	all = append(all, first)
	if best.Status == "undecided" {
		var more []SolveResult
		best, more = race(file, []attempt{{z3o, seed + 1, short}, {z3n, seed + 2, short}, {z3n, seed + 3, short}, {z3o, seed + 2, short}, {z3n, seed + 4, short}, {z3o, seed + 3, short}})
		all = append(all, more...)
	}
	if best.Status == "undecided" {
		var more []SolveResult
		best, more = race(file, []attempt{{cvc, seed, timeoutS}, {z3n, seed + 5, timeoutS}, {z3n, seed + 6, timeoutS}, {z3o, seed + 4, timeoutS}, {z3n, seed, timeoutS}, {z3o, seed, timeoutS}})
		all = append(all, more...)
	}
	if best.Status == "undecided" {
		r := SolveResult{Status: "unknown", Solver: "portfolio"}
		var parts []string
		allErr := true
		for _, x := range all {
			if x.Status != "error" {
				allErr = false
			}
		}
		if allErr && len(all) > 0 {
			r.Status = "error"
			r.Output = firstN(all[0].Output, 500)
			return r
		}
		for _, x := range all {
			if x.Status == "timeout" {
				r.Status = "timeout"
			}
			r.Seconds += x.Seconds
			parts = append(parts, fmt.Sprintf("%s: %s (%.1fs)", x.Solver, x.Status, x.Seconds))
		}
		r.Output = strings.Join(parts, "; ")
		return r
	}
	if crossCheck {
		// a second, different solver must not contradict the answer
		others := []solverSpec{cvc, z3o}
		if strings.HasPrefix(best.Solver, "z3-4") {
			others = []solverSpec{z3n, cvc}
		} else if strings.HasPrefix(best.Solver, "cvc5") {
			others = []solverSpec{z3n, z3o}
		}
		for _, sp := range others {
			r := runSolver(context.Background(), sp, file, min(timeoutS, 20), seed)
			if r.Status == best.Status {
				best.Agree = append(best.Agree, r.Solver)
			} else if r.Status == "sat" || r.Status == "unsat" {
				best.Conflict = fmt.Sprintf("%s says %s but %s says %s", best.Solver, best.Status, r.Solver, r.Status)
			}
		}
	}
	return best
}

var reEdgeIte = regexp.MustCompile(`\(ite (\|E\d+_\d+!\d+\|) `)

// splitOnEdges: try to decide an undecided query by case analysis on edge predicates used in merges (ite).
// Greedy and sound: in each round every candidate predicate P is tried in both polarities under the literals
// fixed so far; if both are unsat the goal is discharged (P or not P); if exactly one polarity is unsat that
// case is closed and the search continues inside the other one. Each closed case was refuted by a solver.
func splitOnEdges(file, full string, timeoutS, seed int) (SolveResult, bool) {
	seen := map[string]bool{}
	var cands []string
	for _, m := range reEdgeIte.FindAllStringSubmatch(full, -1) {
		if !seen[m[1]] {
			seen[m[1]] = true
			cands = append(cands, m[1])
		}
	}
	if len(cands) > 10 {
		cands = cands[:10]
	}
	body := strings.TrimSuffix(strings.TrimSpace(full), "(check-sat)")
	var total float64
	var fixed []string
	used := map[string]bool{}
	qn := 0
	for round := 0; round < 4; round++ {
		type res struct {
			sym      string
			pos, neg bool
			sec      float64
		}
		var open []string
		for _, c := range cands {
			if !used[c] {
				open = append(open, c)
			}
		}
		if len(open) == 0 {
			break
		}
		ch := make(chan res, len(open))
		sem := make(chan struct{}, 5)
		prefix := body
		for _, l := range fixed {
			prefix += "(assert " + l + ")\n"
		}
		for _, c := range open {
			qn++
			go func(k int, c string) {
				sem <- struct{}{}
				defer func() { <-sem }()
				r := res{sym: c}
				for p, lit := range []string{c, "(not " + c + ")"} {
					f := fmt.Sprintf("%s.split%d_%d.smt2", file, k, p)
					_ = os.WriteFile(f, []byte(prefix+"(assert "+lit+")\n(check-sat)\n"), 0o644)
					sr, _ := race(f, []attempt{{solvers[0], seed, timeoutS}, {solvers[2], seed, timeoutS}})
					r.sec += sr.Seconds
					if p == 0 {
						r.pos = sr.Status == "unsat"
					} else {
						r.neg = sr.Status == "unsat"
					}
					_ = os.Remove(f)
				}
				ch <- r
			}(qn, c)
		}
		var pick *res
		for range open {
			r := <-ch
			total += r.sec
			if r.pos && r.neg {
				return SolveResult{Status: "unsat", Solver: fmt.Sprintf("z3+case-split(%d edges)", len(fixed)+1), Seconds: total}, true
			}
			if (r.pos || r.neg) && pick == nil {
				rr := r
				pick = &rr
			}
		}
		if pick == nil {
			break
		}
		used[pick.sym] = true
		if pick.pos {
			fixed = append(fixed, "(not "+pick.sym+")")
		} else {
			fixed = append(fixed, pick.sym)
		}
	}
	return SolveResult{}, false
}

// solve: discharge one obligation. Conjunctive goals are split and each conjunct is decided on its own.
func solve(dir string, id int, e *Enc, o *Obl, timeoutS int, seed int, crossCheck bool) SolveResult {
	want := "unsat"
	type goal struct {
		path, cond T
		extra      []string
	}
	var goals []goal
	if o.Cover {
		want = "sat"
		goals = []goal{{o.Path, o.Cond, o.Extra}}
	} else if len(o.Subs) > 0 {
		for _, sg := range o.Subs {
			if len(sg.Splits) > 1 {
				var cases []T
				for _, lits := range sg.Splits {
					cs := And(lits...)
					cases = append(cases, cs)
					for _, c := range splitConj(sg.Cond.S) {
						goals = append(goals, goal{And(sg.Path, cs), T{c, SBool}, sg.Extra})
					}
				}
				// coverage: on this return path one of the cases applies
				goals = append(goals, goal{sg.Path, Or(cases...), sg.Extra})
				continue
			}
			for _, c := range splitConj(sg.Cond.S) {
				goals = append(goals, goal{sg.Path, T{c, SBool}, sg.Extra})
			}
		}
	} else if len(o.Splits) > 1 {
		var cases []T
		for _, lits := range o.Splits {
			cs := And(lits...)
			cases = append(cases, cs)
			for _, c := range splitConj(o.Cond.S) {
				goals = append(goals, goal{And(o.Path, cs), T{c, SBool}, o.Extra})
			}
		}
		goals = append(goals, goal{o.Path, Or(cases...), o.Extra})
	} else {
		for _, c := range splitConj(o.Cond.S) {
			goals = append(goals, goal{o.Path, T{c, SBool}, o.Extra})
		}
	}
	total := SolveResult{Status: want}
	// queries are generated sequentially (the encoder is not concurrent), then discharged a few at a time
	type job struct {
		k    int
		g    goal
		file string
		full string
		res  SolveResult
	}
	var jobs []*job
	for k, g := range goals {
		if g.cond.S == "true" {
			continue
		}
		sub := *o
		sub.Subs = nil
		sub.Path, sub.Cond, sub.Extra = g.path, g.cond, g.extra
		file := filepath.Join(dir, fmt.Sprintf("q%05d_%d.smt2", id, k))
		full := "(set-logic ALL)\n" + e.Query(&sub)
		if o.Cover {
			full = stripQuant(full)
		}
		if err := os.WriteFile(file, []byte(full), 0o644); err != nil {
			return SolveResult{Status: "error", Output: err.Error()}
		}
		jobs = append(jobs, &job{k: k, g: g, file: file, full: full})
	}
	var wg sync.WaitGroup
	sem := make(chan struct{}, 4)
	var failed atomic.Bool
	for _, j := range jobs {
		wg.Add(1)
		go func(j *job) {
			defer wg.Done()
			sem <- struct{}{}
			defer func() { <-sem }()
			if failed.Load() {
				j.res = SolveResult{Status: "skipped"}
				return
			}
			r := solveOne(j.file, timeoutS, seed, crossCheck)
			if r.Status != want && r.Status != "sat" && !o.Cover {
				// undecided: case split on control-flow edge predicates that merge values (phi); sound, see splitOnEdges
				if sr, ok := splitOnEdges(j.file, j.full, min(timeoutS, 5), seed); ok {
					sr.Seconds += r.Seconds
					r = sr
				}
			}
			if r.Status != want {
				failed.Store(true)
			}
			j.res = r
		}(j)
	}
	wg.Wait()
	for _, j := range jobs {
		r := j.res
		if r.Status == "skipped" {
			continue
		}
		total.Seconds += r.Seconds
		if total.Solver == "" {
			total.Solver = r.Solver
		} else if !strings.Contains(total.Solver, r.Solver) {
			total.Solver += "+" + r.Solver
		}
		if len(r.Agree) > 0 {
			total.Agree = r.Agree
		}
		if r.Conflict != "" {
			total.Conflict = r.Conflict
		}
	}
	for _, j := range jobs {
		r := j.res
		if r.Status == "skipped" || r.Status == want {
			continue
		}
		total.Status = r.Status
		total.Output = r.Output
		total.FailedConjunct = j.g.cond.S
		total.FailedPath = j.g.path.S
		if r.Status == "sat" && want == "unsat" {
			mfile := filepath.Join(dir, fmt.Sprintf("q%05d_%d_model.smt2", id, j.k))
			_ = os.WriteFile(mfile, []byte("(set-option :produce-models true)\n"+j.full+"(get-model)\n"), 0o644)
			mr := runSolver(context.Background(), solvers[0], mfile, min(timeoutS, 10), seed)
			if mr.Status == "sat" {
				total.Model = mr.Output
			}
		}
		return total
	}
	return total
}
