package main

// Replay of solver counterexamples against the real code: the model is turned into a Go test that
// is injected into the package with `go test -overlay` (nothing is written to /repo).

import (
	"bytes"
	"context"
	"encoding/json"
	"fmt"
	"go/types"
	"math"
	"os"
	"os/exec"
	"path/filepath"
	"regexp"
	"strconv"
	"strings"
	"time"
)

// replayTerms: which terms to read from the model for this obligation's replay family.
func (p *Program) replayFamily(o *Obl) string {
	if strings.HasSuffix(o.Func, ").CoerceIn") || strings.HasSuffix(o.Func, ").CoerceOut") {
		if strings.Contains(o.Func, "Scalar)") {
			return "scalar"
		}
	}
	return ""
}

func (p *Program) replayTerms(o *Obl) []string {
	switch p.replayFamily(o) {
	case "scalar":
		return []string{"(tag p_v)", "(pl_Int p_v)", "(pl_Bool p_v)", "(pl_F64 p_v)", "(pl_F32 p_v)"}
	}
	return nil
}

var reValue = regexp.MustCompile(`\(\((\([^()]*\)|[^ ()]+) `)

// parseGetValue parses z3's (get-value) answer into term -> value text.
func parseGetValue(out string, terms []string) map[string]string {
	res := map[string]string{}
	for _, t := range terms {
		i := strings.Index(out, "("+t+" ")
		if i < 0 {
			continue
		}
		rest := out[i+len(t)+2:]
		// value is a balanced s-expression or an atom
		rest = strings.TrimLeft(rest, " \n")
		if strings.HasPrefix(rest, "(") {
			depth := 0
			for j, c := range rest {
				if c == '(' {
					depth++
				}
				if c == ')' {
					depth--
					if depth == 0 {
						res[t] = rest[:j+1]
						break
					}
				}
			}
		} else {
			j := strings.IndexAny(rest, ") \n")
			res[t] = rest[:j]
		}
	}
	return res
}

func smtInt(s string) (int64, bool) {
	s = strings.TrimSpace(s)
	neg := false
	if strings.HasPrefix(s, "(-") {
		neg = true
		s = strings.TrimSpace(strings.TrimSuffix(strings.TrimPrefix(s, "(-"), ")"))
	}
	u, err := strconv.ParseUint(s, 10, 64)
	if err != nil {
		return 0, false
	}
	if neg {
		return -int64(u), true
	}
	return int64(u), true
}

func smtUint(s string) (uint64, bool) {
	u, err := strconv.ParseUint(strings.TrimSpace(s), 10, 64)
	return u, err == nil
}

// smtFloat parses (fp #b.. #b.. #b..) / (_ +zero ..) / (_ NaN ..) etc. into a Go expression.
func smtFloatExpr(s string, bits int) (string, bool) {
	s = strings.TrimSpace(s)
	switch {
	case strings.HasPrefix(s, "(_ +zero"):
		return "0.0", true
	case strings.HasPrefix(s, "(_ -zero"):
		return "math.Copysign(0, -1)", true
	case strings.HasPrefix(s, "(_ NaN"):
		return "math.NaN()", true
	case strings.HasPrefix(s, "(_ +oo"):
		return "math.Inf(1)", true
	case strings.HasPrefix(s, "(_ -oo"):
		return "math.Inf(-1)", true
	case strings.HasPrefix(s, "(fp "):
		f := strings.Fields(strings.Trim(s, "()"))
		if len(f) != 4 {
			return "", false
		}
		bitsOf := func(x string) (uint64, int, bool) {
			if strings.HasPrefix(x, "#b") {
				v, err := strconv.ParseUint(x[2:], 2, 64)
				return v, len(x) - 2, err == nil
			}
			if strings.HasPrefix(x, "#x") {
				v, err := strconv.ParseUint(x[2:], 16, 64)
				return v, 4 * (len(x) - 2), err == nil
			}
			return 0, 0, false
		}
		sg, _, ok1 := bitsOf(f[1])
		ex, en, ok2 := bitsOf(f[2])
		mn, mb, ok3 := bitsOf(f[3])
		if !ok1 || !ok2 || !ok3 {
			return "", false
		}
		if bits == 64 && en == 11 && mb == 52 {
			u := sg<<63 | ex<<52 | mn
			return fmt.Sprintf("math.Float64frombits(0x%x) /* %v */", u, math.Float64frombits(u)), true
		}
		if bits == 32 && en == 8 && mb == 23 {
			u := uint32(sg<<31 | ex<<23 | mn)
			return fmt.Sprintf("math.Float32frombits(0x%x) /* %v */", u, math.Float32frombits(u)), true
		}
	}
	return "", false
}

// scalarInput builds the Go expression for the boxed input value from model values.
func (p *Program) scalarInput(vals map[string]string) (string, bool) {
	tg, ok := smtInt(vals["(tag p_v)"])
	if !ok {
		return "", false
	}
	if tg == 0 {
		return "nil", true
	}
	if int(tg) > len(p.tagTypes) {
		return "struct{ X int }{1} /* a type unknown to the package */", true
	}
	t := p.tagTypes[tg-1]
	if b, ok := t.(*types.Basic); ok {
		switch {
		case b.Info()&types.IsInteger != 0:
			if b.Info()&types.IsUnsigned != 0 {
				u, ok := smtUint(vals["(pl_Int p_v)"])
				if !ok {
					return "", false
				}
				return fmt.Sprintf("%s(%d)", b.Name(), u), true
			}
			n, ok := smtInt(vals["(pl_Int p_v)"])
			if !ok {
				return "", false
			}
			return fmt.Sprintf("%s(%d)", b.Name(), n), true
		case b.Kind() == types.Float64:
			e, ok := smtFloatExpr(vals["(pl_F64 p_v)"], 64)
			return "float64(" + e + ")", ok
		case b.Kind() == types.Float32:
			e, ok := smtFloatExpr(vals["(pl_F32 p_v)"], 32)
			if strings.HasPrefix(e, "math.Float32frombits") {
				return e, ok
			}
			return "float32(" + e + ")", ok
		case b.Kind() == types.Bool:
			return vals["(pl_Bool p_v)"], vals["(pl_Bool p_v)"] != ""
		case b.Kind() == types.String:
			return `"abc"`, true
		}
	}
	switch types.TypeString(t, nil) {
	case "time.Time":
		return "time.Unix(1, 0)", true
	}
	return "", false
}

const scalarReplayTmpl = `package ggql

import (
	"math"
	"math/big"
	"testing"
	"time"
)

var _ = math.NaN
var _ = time.Unix

// oracle: independent statement of the coercion property for built-in scalars.
func govcSame(dst string, v, res interface{}, truncOnly bool) (bool, string) {
	toBig := func(x interface{}) (*big.Float, bool, bool) { // value, isFloatNonFinite, ok
		switch t := x.(type) {
		case int:
			return new(big.Float).SetPrec(200).SetInt64(int64(t)), false, true
		case int8:
			return new(big.Float).SetPrec(200).SetInt64(int64(t)), false, true
		case int16:
			return new(big.Float).SetPrec(200).SetInt64(int64(t)), false, true
		case int32:
			return new(big.Float).SetPrec(200).SetInt64(int64(t)), false, true
		case int64:
			return new(big.Float).SetPrec(200).SetInt64(t), false, true
		case uint:
			return new(big.Float).SetPrec(200).SetUint64(uint64(t)), false, true
		case uint8:
			return new(big.Float).SetPrec(200).SetUint64(uint64(t)), false, true
		case uint16:
			return new(big.Float).SetPrec(200).SetUint64(uint64(t)), false, true
		case uint32:
			return new(big.Float).SetPrec(200).SetUint64(uint64(t)), false, true
		case uint64:
			return new(big.Float).SetPrec(200).SetUint64(t), false, true
		case float32:
			if math.IsNaN(float64(t)) || math.IsInf(float64(t), 0) {
				return nil, true, true
			}
			return new(big.Float).SetPrec(200).SetFloat64(float64(t)), false, true
		case float64:
			if math.IsNaN(t) || math.IsInf(t, 0) {
				return nil, true, true
			}
			return new(big.Float).SetPrec(200).SetFloat64(t), false, true
		}
		return nil, false, false
	}
	switch dst {
	case "int32", "int64":
		if dst == "int32" {
			if _, ok := res.(int32); !ok {
				return false, "result is not an int32"
			}
		} else if _, ok := res.(int64); !ok {
			return false, "result is not an int64"
		}
		bv, nf, ok := toBig(v)
		if !ok {
			return true, "" // non-numeric source: only conformance is stated
		}
		if nf {
			return false, "non-finite input accepted"
		}
		br, _, _ := toBig(res)
		if truncOnly {
			iv, _ := bv.Int(nil) // truncation toward zero
			bv = new(big.Float).SetPrec(200).SetInt(iv)
		}
		if bv.Cmp(br) != 0 {
			return false, "value altered"
		}
	case "float32":
		r, ok := res.(float32)
		if !ok {
			return false, "result is not a float32"
		}
		if math.IsNaN(float64(r)) || math.IsInf(float64(r), 0) {
			return false, "result is not finite"
		}
	case "float64":
		r, ok := res.(float64)
		if !ok {
			return false, "result is not a float64"
		}
		if math.IsNaN(r) || math.IsInf(r, 0) {
			return false, "result is not finite"
		}
	case "string":
		if _, ok := res.(string); !ok {
			return false, "result is not a string"
		}
	case "bool":
		if _, ok := res.(bool); !ok {
			return false, "result is not a bool"
		}
	case "time.Time":
		if _, ok := res.(time.Time); !ok {
			return false, "result is not a time.Time"
		}
	}
	return true, ""
}

func TestGovcReplay(t *testing.T) {
	var v interface{} = %s
	recv := %s
	res, err := recv.%s(v)
	t.Logf("input=%%#v (%%T) result=%%#v (%%T) err=%%v", v, v, res, res, err)
	if err != nil {
		if %v && res != nil {
			t.Fatalf("REPLAY-CONFIRMED: error returned together with a non-nil value %%#v", res)
		}
		t.Logf("REPLAY-NOT-CONFIRMED: input rejected with error")
		return
	}
	if v == nil {
		if res != nil {
			t.Fatalf("REPLAY-CONFIRMED: nil became %%#v", res)
		}
		return
	}
	if ok, why := govcSame(%q, v, res, %v); !ok {
		t.Fatalf("REPLAY-CONFIRMED: %%s: input %%#v (%%T) -> %%#v (%%T)", why, v, v, res, res)
	}
	t.Logf("REPLAY-NOT-CONFIRMED")
}
`

var scalarCtor = map[string][2]string{
	"intScalar":     {"newIntScalar().(*intScalar)", "int32"},
	"int64Scalar":   {"newInt64Scalar().(*int64Scalar)", "int64"},
	"floatScalar":   {"newFloatScalar().(*floatScalar)", "float32"},
	"float64Scalar": {"newFloat64Scalar().(*float64Scalar)", "float64"},
	"stringScalar":  {"newStringScalar().(*stringScalar)", "string"},
	"idScalar":      {"newIDScalar().(*idScalar)", "string"},
	"booleanScalar": {"newBooleanScalar().(*booleanScalar)", "bool"},
	"timeScalar":    {"newTimeScalar().(*timeScalar)", "time.Time"},
}

type ReplayOutcome struct {
	Confirmed bool
	Input     string
	Output    string
	TestFile  string
}

// replay runs the counterexample of it against the real code. ok=false when no replay was possible.
func (r *Run) replay(it *OblResult, dir string, base string) (*ReplayOutcome, bool) {
	fam := r.p.replayFamily(it.Obl)
	if fam == "" || it.Res.Status != "sat" {
		return nil, false
	}
	terms := r.p.replayTerms(it.Obl)
	sub := *it.Obl
	if it.Res.FailedConjunct != "" {
		sub.Cond = T{it.Res.FailedConjunct, SBool}
		sub.Subs = nil
		if it.Res.FailedPath != "" {
			sub.Path = T{it.Res.FailedPath, SBool}
		}
	}
	q := "(set-option :produce-models true)\n(set-logic ALL)\n" + it.Enc.Query(&sub) + "(get-value (" + strings.Join(terms, " ") + "))\n"
	qf := filepath.Join(r.scratch, base+"_gv.smt2")
	os.WriteFile(qf, []byte(q), 0o644)
	res := runSolver(context.Background(), solvers[0], qf, 10, r.seed)
	if res.Status != "sat" {
		return nil, false
	}
	vals := parseGetValue(res.Output, terms)
	switch fam {
	case "scalar":
		input, ok := r.p.scalarInput(vals)
		if !ok {
			return nil, false
		}
		m := regexp.MustCompile(`\(\*(\w+)\)\.(CoerceIn|CoerceOut)`).FindStringSubmatch(it.Obl.Func)
		if m == nil {
			return nil, false
		}
		ctor, ok := scalarCtor[m[1]]
		if !ok {
			return nil, false
		}
		dst := ctor[1]
		if m[2] == "CoerceOut" && m[1] == "timeScalar" {
			dst = "string"
		}
		src := fmt.Sprintf(scalarReplayTmpl, input, ctor[0], m[2], m[2] == "CoerceOut", dst, strings.HasSuffix(it.Obl.Name, "-range"))
		out, confirmed := r.runOverlayTest(src, dir, base)
		return &ReplayOutcome{Confirmed: confirmed, Input: input, Output: out, TestFile: filepath.Join(dir, base+"_replay_test.go")}, true
	}
	return nil, false
}

// runOverlayTest injects src as an in-package test file through -overlay and runs it.
func (r *Run) runOverlayTest(src, dir, base string) (string, bool) {
	os.MkdirAll(dir, 0o755)
	testFile := filepath.Join(dir, base+"_replay_test.go")
	os.WriteFile(testFile, []byte(src), 0o644)
	ov := map[string]interface{}{"Replace": map[string]string{
		filepath.Join(r.p.repo, "pkg/ggql/zz_govc_replay_test.go"): testFile,
	}}
	ovData, _ := json.Marshal(ov)
	ovFile := filepath.Join(r.scratch, base+"_overlay.json")
	os.WriteFile(ovFile, ovData, 0o644)
	ctx, cancel := context.WithTimeout(context.Background(), 120*time.Second)
	defer cancel()
	cmd := exec.CommandContext(ctx, "go", "test", "-overlay", ovFile, "-vet=off", "-count=1", "-timeout", "60s", "-run", "^TestGovcReplay$", "./pkg/ggql")
	cmd.Dir = r.p.repo
	cmd.Env = append(os.Environ(), "GOFLAGS=-mod=mod", "GOPROXY=off", "GOSUMDB=off", "GOTOOLCHAIN=local")
	var out bytes.Buffer
	cmd.Stdout = &out
	cmd.Stderr = &out
	cmd.Run()
	text := out.String()
	return firstN(text, 6000), strings.Contains(text, "REPLAY-CONFIRMED")
}
