package main

// Enc: the growing SMT problem for one function under verification: declarations,
// definitional equalities, ground facts attached to symbols, and the list of obligations.
// Queries are sliced: only definitions and facts in the cone of the goal are emitted.

import (
	"fmt"
	"go/types"
	"sort"
	"strings"
)

type Obl struct {
	Name    string // stable name within the function
	Class   string // panic, post, inv, term, pre, frame, lock, lemma, cover, overflow
	Func    string
	Path    T      // path predicate (Bool)
	Cond    T      // must hold on that path
	Pos     string // source position
	Cover   bool   // cover obligations must be SAT
	Uses    []string
	Props   []string
	Extra   []string // additional assertions (use-instances) for this obligation only
	Replay  map[string]string
	SrcLine string
	Subs    []SubGoal // per-return sub-goals of a postcondition (all must be discharged)
	Splits  [][]T     // optional case analysis of the path (one query per case plus a coverage query)
}

type SubGoal struct {
	Path, Cond T
	Extra []string
	Splits [][]T // optional case analysis of the path (each case proved separately, plus a coverage goal)
}

type Enc struct {
	prog      *Program
	decls     map[string]string
	defs      map[string]string   // symbol -> "(assert ...)"
	facts     map[string][]string // symbol -> asserts
	symDeps   map[string][]string // cached deps of def+facts
	obls      []*Obl
	nsym      int
	stateSort map[string]Sort
	notes     []string // abstractions / unsupported constructs met
	assumed   map[string]bool
	usedStr   map[string]bool
	extras    []string
	appCache  map[string]T
	wfDone    map[string]bool
	symStateUsed map[string]T
	autoDone  map[string]bool
	lemmaMode bool
	lazy      map[string]string // assumption symbol -> quantified formula it stands for
	verAlloc  map[string]T // state-array version -> allocation counter when it was created
}

func newEnc(p *Program) *Enc {
	sliceParts = map[string][4]T{}
	qcount = 0
	p.strLits = map[string]string{}
	p.strOrder = nil
	return &Enc{prog: p, decls: map[string]string{}, defs: map[string]string{}, facts: map[string][]string{},
		stateSort: map[string]Sort{}, verAlloc: map[string]T{}, wfDone: map[string]bool{}, symStateUsed: map[string]T{}, assumed: map[string]bool{}, usedStr: map[string]bool{}}
}

func (e *Enc) note(format string, args ...interface{}) {
	s := fmt.Sprintf(format, args...)
	for _, n := range e.notes {
		if n == s {
			return
		}
	}
	e.notes = append(e.notes, s)
}

func (e *Enc) fresh(base string) string {
	e.nsym++
	return fmt.Sprintf("%s!%d", base, e.nsym)
}

// declare a constant of the given sort (idempotent).
func (e *Enc) declConst(name string, s Sort) T {
	qn := q(name)
	if _, ok := e.decls[qn]; !ok {
		e.decls[qn] = fmt.Sprintf("(declare-const %s %s)", qn, s)
		e.autoFacts(qn, s)
		if strings.HasSuffix(name, "@0") && strings.HasPrefix(name, "H_") {
			// entry version of a heap array: its references predate the entry allocation counter
			e.refWf(strings.TrimSuffix(name, "@0"), T{qn, s}, T{"|alloc@0|", SInt})
			if _, ok := e.decls["|alloc@0|"]; !ok {
				e.decls["|alloc@0|"] = "(declare-const |alloc@0| Int)"
			}
		}
	}
	return T{qn, s}
}

func (e *Enc) declFun(name string, args []Sort, ret Sort) string {
	qn := q(name)
	if _, ok := e.decls[qn]; !ok {
		as := make([]string, len(args))
		for i, a := range args {
			as[i] = string(a)
		}
		e.decls[qn] = fmt.Sprintf("(declare-fun %s (%s) %s)", qn, strings.Join(as, " "), ret)
	}
	return qn
}

// refWf: references stored in a (havoced or initial) heap array predate its allocation bound.
func (e *Enc) refWf(name string, arr T, bound T) {
	if !strings.HasPrefix(name, "H_") {
		return
	}
	key := "wf:" + arr.S
	if e.wfDone[key] {
		return
	}
	ft := e.prog.fieldTypeByArray(name)
	if ft == nil {
		return
	}
	var body string
	switch ft.Underlying().(type) {
	case *types.Slice:
		body = fmt.Sprintf("(and (<= (sptr (select %[1]s r!w)) %[2]s) (<= 0 (slen (select %[1]s r!w))) (<= (slen (select %[1]s r!w)) (scap (select %[1]s r!w))) (<= 0 (soff (select %[1]s r!w))) (<= 0 (sptr (select %[1]s r!w))) (=> (= (sptr (select %[1]s r!w)) 0) (= (scap (select %[1]s r!w)) 0)))", arr.S, bound.S)
	case *types.Pointer, *types.Map:
		body = fmt.Sprintf("(and (<= 0 (select %s r!w)) (<= (select %s r!w) %s))", arr.S, arr.S, bound.S)
	default:
		return
	}
	e.wfDone[key] = true
	e.addFact(arr.S, fmt.Sprintf("(assert (forall ((r!w Int)) (! %s :pattern ((select %s r!w)))))", body, arr.S))
}


// autoFacts: ground instances of the sort axioms for a newly declared constant.
func (e *Enc) autoFacts(qn string, s Sort) {
	switch s {
	case SStr:
		e.addFact(qn, fmt.Sprintf("(assert (>= (strlen %s) 0))", qn))
		e.addFact(qn, fmt.Sprintf("(assert (= (= (strlen %s) 0) (= %s str_empty)))", qn, qn))
	case SSlice:
		e.addFact(qn, fmt.Sprintf("(assert (and (<= 0 (slen %s)) (<= (slen %s) (scap %s)) (<= 0 (soff %s)) (<= 0 (sptr %s)) (=> (= (sptr %s) 0) (= (scap %s) 0))))", qn, qn, qn, qn, qn, qn, qn))
	case SIface:
		e.addFact(qn, fmt.Sprintf("(assert (and (>= (tag %s) 0) (= (= (tag %s) 0) (= %s nilI))))", qn, qn, qn))
	}
}

// lazyAssume: a Boolean name for a quantified assumption. Its meaning (name => formula) is emitted only
// for queries whose goal shares a spec function or a state variable with the formula; otherwise the name
// stays unconstrained, i.e. the assumption is dropped (always sound, keeps irrelevant quantifiers out).
func (e *Enc) lazyAssume(t T) T {
	if e.lazy == nil {
		e.lazy = map[string]string{}
	}
	name := q(e.fresh("A"))
	e.decls[name] = fmt.Sprintf("(declare-const %s Bool)", name)
	e.lazy[name] = t.S
	return T{name, SBool}
}

// relevanceSyms: spec/pure/unwrap function symbols and state-variable base names occurring in s.
func relevanceSyms(s string, out map[string]bool) {
	m := map[string]bool{}
	symbolsOf(s, m)
	for k := range m {
		n := strings.Trim(k, "|")
		switch {
		case strings.HasPrefix(n, "spec_"), strings.HasPrefix(n, "pure_"), strings.HasPrefix(n, "unwrap_"):
			out[n] = true
		case strings.Contains(n, "@"):
			base := n[:strings.Index(n, "@")]
			if base != "alloc" {
				out[base] = true
			}
		case strings.HasSuffix(n, "!sv"):
			out[strings.TrimSuffix(n, "!sv")] = true
		}
	}
}

// define: fresh constant equal to term.
func (e *Enc) define(base string, t T) T {
	name := q(e.fresh(base))
	e.decls[name] = fmt.Sprintf("(declare-const %s %s)", name, t.Sort)
	e.defs[name] = fmt.Sprintf("(assert (= %s %s))", name, t.S)
	e.autoFacts(name, t.Sort)
	if p, ok := sliceParts[t.S]; ok {
		sliceParts[name] = p
	}
	return T{name, t.Sort}
}

// definePath: a Boolean path predicate that IMPLIES its body (one direction only: being on the path
// entails the accumulated assumptions; the converse is never needed and would put quantified
// assumptions in negative polarity).
func (e *Enc) definePath(base string, t T) T {
	if t.S == "true" || t.S == "false" {
		return e.define(base, t)
	}
	name := q(e.fresh(base))
	e.decls[name] = fmt.Sprintf("(declare-const %s Bool)", name)
	e.defs[name] = fmt.Sprintf("(assert (=> %s %s))", name, t.S)
	return T{name, SBool}
}

// defineNamed: constant with exact name.
func (e *Enc) defineNamed(name string, t T) T {
	qn := q(name)
	if _, ok := e.decls[qn]; ok {
		panic("redefinition of " + qn)
	}
	e.decls[qn] = fmt.Sprintf("(declare-const %s %s)", qn, t.Sort)
	e.defs[qn] = fmt.Sprintf("(assert (= %s %s))", qn, t.S)
	e.autoFacts(qn, t.Sort)
	if p, ok := sliceParts[t.S]; ok {
		sliceParts[qn] = p
	}
	return T{qn, t.Sort}
}

func (e *Enc) addFact(sym string, assert string) {
	e.facts[sym] = append(e.facts[sym], assert)
}

// factAbout attaches a fact (Bool term) to every... the given symbol.
func (e *Enc) factAbout(sym T, f T) {
	if f.S == "true" {
		return
	}
	e.addFact(sym.S, "(assert "+f.S+")")
}

// ---- query generation ----

const prelude = `(declare-sort Str 0)
(declare-sort Iface 0)
(declare-datatypes ((Slice 0)) (((mkslice (sptr Int) (soff Int) (slen Int) (scap Int)))))
(declare-fun strlen (Str) Int)
(declare-fun byteAt (Str Int) Int)
(declare-fun strcat (Str Str) Str)
(declare-fun substr (Str Int Int) Str)
(declare-const str_empty Str)
(assert (= (strlen str_empty) 0))
(declare-fun tag (Iface) Int)
(declare-const nilI Iface)
(assert (= (tag nilI) 0))
(declare-fun pl_Int (Iface) Int)
(declare-fun pl_Bool (Iface) Bool)
(declare-fun pl_F32 (Iface) (_ FloatingPoint 8 24))
(declare-fun pl_F64 (Iface) (_ FloatingPoint 11 53))
(declare-fun pl_Str (Iface) Str)
(declare-fun pl_Slice (Iface) Slice)
(declare-fun box_Int (Int Int) Iface)
(declare-fun box_Bool (Int Bool) Iface)
(declare-fun box_F32 (Int (_ FloatingPoint 8 24)) Iface)
(declare-fun box_F64 (Int (_ FloatingPoint 11 53)) Iface)
(declare-fun box_Str (Int Str) Iface)
(declare-fun box_Slice (Int Slice) Iface)
(declare-fun impl (Int Int) Bool)
(declare-fun ptrlike (Int) Bool)
(declare-fun slicelike (Int) Bool)
(declare-fun uncomparable (Int) Bool)
(declare-fun bitand (Int Int) Int)
(declare-fun bitor (Int Int) Int)
(declare-fun bitxor (Int Int) Int)
(declare-fun shl (Int Int) Int)
(declare-fun shr (Int Int) Int)
`

func (e *Enc) cone(goal string, extra []string) (decls []string, asserts []string, used map[string]bool) {
	seen := map[string]bool{}
	var work []string
	rel := map[string]bool{}
	add := func(s string) {
		m := map[string]bool{}
		symbolsOf(s, m)
		for k := range m {
			if !seen[k] {
				seen[k] = true
				work = append(work, k)
			}
		}
	}
	relevanceSyms(goal, rel)
	add(goal)
	for _, x := range extra {
		add(x)
		relevanceSyms(x, rel)
	}
	var visited []string
	var pendingLazy []string
	included := map[string]bool{}
	drain := func() {
		for len(work) > 0 {
			s := work[len(work)-1]
			work = work[:len(work)-1]
			visited = append(visited, s)
			if d, ok := e.defs[s]; ok {
				add(d)
			}
			for _, f := range e.facts[s] {
				add(f)
			}
			if d, ok := e.decls[s]; ok {
				add(d)
			}
			if ax, ok := zeroArrays[s]; ok {
				add(ax)
			}
			if _, ok := e.lazy[s]; ok {
				pendingLazy = append(pendingLazy, s)
			}
		}
	}
	drain()
	for changed := true; changed; {
		changed = false
		for _, a := range pendingLazy {
			if included[a] {
				continue
			}
			fr := map[string]bool{}
			relevanceSyms(e.lazy[a], fr)
			hit := len(fr) == 0
			for k := range fr {
				if rel[k] {
					hit = true
					break
				}
			}
			if hit {
				included[a] = true
				changed = true
				for k := range fr {
					rel[k] = true
				}
				add(e.lazy[a])
				drain()
			}
		}
	}
	sort.Strings(visited)
	used = seen
	var sorts, others []string
	for _, s := range visited {
		d, ok := e.decls[s]
		if !ok || d == "" {
			continue
		}
		if strings.HasPrefix(d, "(declare-sort") {
			sorts = append(sorts, d)
		} else {
			others = append(others, d)
		}
	}
	decls = append(sorts, others...)
	for _, s := range visited {
		if d, ok := e.defs[s]; ok {
			asserts = append(asserts, d)
		}
		asserts = append(asserts, e.facts[s]...)
		if included[s] {
			asserts = append(asserts, fmt.Sprintf("(assert (=> %s %s))", s, e.lazy[s]))
		}
	}
	return
}

// Query renders the SMT-LIB text for an obligation. For normal obligations: unsat == discharged.
func (e *Enc) Query(o *Obl) string {
	var goal string
	if o.Cover {
		goal = And(o.Path, o.Cond).S
	} else {
		goal = And(o.Path, Not(o.Cond)).S
	}
	decls, asserts, used := e.cone(goal, o.Extra)
	var b strings.Builder
	fmt.Fprintf(&b, "; obligation %s :: %s [%s] %s\n", o.Func, o.Name, o.Class, o.Pos)
	b.WriteString(prelude)
	b.WriteString(e.prog.tagPrelude())
	for _, d := range decls {
		b.WriteString(d)
		b.WriteByte('\n')
	}
	// string literal distinctness
	b.WriteString(e.prog.strPrelude(decls))
	for _, name := range sortedKeys(used) {
		if ax, ok := zeroArrays[name]; ok {
			b.WriteString(ax)
		}
	}
	if used["impl"] {
		b.WriteString(e.prog.implAsserts())
	}
	if used["ptrlike"] || used["uncomparable"] || used["slicelike"] {
		b.WriteString(e.prog.tagKindAsserts())
	}
	for _, a := range asserts {
		b.WriteString(a)
		b.WriteByte('\n')
	}
	for _, x := range o.Extra {
		b.WriteString(x)
		b.WriteByte('\n')
	}
	fmt.Fprintf(&b, "(assert %s)\n(check-sat)\n", goal)
	return b.String()
}
