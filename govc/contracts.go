package main

// Parser for the contract file (comment-only Go file, lines starting with //@).

import (
	"fmt"
	"os"
	"regexp"
	"strconv"
	"strings"
)

type Clause struct {
	Label string
	Props []string
	Src   string
	Expr  Expr
	Line  int
	Callee string // atcall clauses: name of the called function or method
}

type LoopSpec struct {
	Invs      []*Clause
	Preserves []*Clause // checked on every back edge (may refer to the header state with athdr), not assumed
	Exits     []*Clause // checked on every edge that leaves the loop (normal end, break, return from inside), not assumed
	Decreases []*Clause // lexicographic tuple
	Uses      []*Clause
}

type Contract struct {
	Func      string
	Line      int
	Props     []string
	Requires  []*Clause
	Ensures   []*Clause
	Assumes   []*Clause // postconditions assumed at call sites, not checked against the body
	Loops     map[int]*LoopSpec
	Decreases []*Clause
	Assigns   []string // array names or "fresh"; nil + !HasAssigns => computed modset
	HasAssigns bool
	Inline    bool
	Checks    map[string][]string // auto classes claimed: class -> props
	Trust     []string            // free-text assumptions
	Uses      []*Clause
	Ghost     []*Clause // ghost updates: "#res += 1"
	AtCalls   []*Clause // "atcall[label]{props} Callee: expr": checked in the caller's scope before every call of Callee (Clause.Callee)
	IsIface   bool
	Pure      bool
	Abstract  bool // contract is assumed, body not checked (listed as trusted)
	Bounded   string
	Results   []string // override result names
}

type SpecFn struct {
	Name   string
	Params []QVar
	Ret    string
	Def    Expr // non-nil: macro definition
	DefSrc string
	Reads  []string // state vars the uninterpreted function depends on
	Line   int
}

type Lemma struct {
	Name   string
	Params []QVar
	Body   Expr
	Src    string
	Proved string // "assumed" or "cvc5-induction"
	LemmaOnly bool // active only while proving lemmas (fold direction of a definition)
	Auto   bool   // global axiom attached to the spec functions named in its triggers
	Pats   string
	Line   int
}

var reClause = regexp.MustCompile(`^(requires|ensures|assumes|atcall|invariant|preserves|exit|decreases|assigns|inline|use|props|trust|check|loop|ghost|abstract|bounded|results|pure)\b(\[[^\]]*\])?\s*(\{[^}]*\})?\s*(.*)$`)

func (p *Program) parseContracts(path string, overlay []byte) error {
	var data []byte
	var err error
	if overlay != nil {
		data = overlay
	} else {
		data, err = os.ReadFile(path)
		if err != nil {
			return err
		}
	}
	rawLines := strings.Split(string(data), "\n")
	// merge continuation lines into logical lines
	type lline struct {
		text string
		ln   int
	}
	var lines []lline
	reStart := regexp.MustCompile(`^(func|interface|spec|lemma|axiom|autolemma|autoaxiom|foldaxiom|comparable|stable|appendlemma|ghostmap|guarded|lockinv|fieldinv|eleminv|typeinv|requires|ensures|assumes|atcall|invariant|preserves|exit|decreases|assigns|inline|use|props|trust|check|loop|ghost|abstract|bounded|results|pure)\b`)
	for ln, raw := range rawLines {
		t := strings.TrimSpace(raw)
		if !strings.HasPrefix(t, "//@") {
			continue
		}
		t = strings.TrimSpace(t[3:])
		if t == "" || strings.HasPrefix(t, "--") {
			continue
		}
		if reStart.MatchString(t) || len(lines) == 0 {
			lines = append(lines, lline{t, ln})
		} else {
			lines[len(lines)-1].text += " " + t
		}
	}
	var cur *Contract
	curLoop := -1
	var last *Clause
	var lastKind string
	_ = lastKind
	for _, ll := range lines {
		t := ll.text
		ln := ll.ln
		fail := func(format string, args ...interface{}) error {
			return fmt.Errorf("%s:%d: %s", path, ln+1, fmt.Sprintf(format, args...))
		}
		switch {
		case strings.HasPrefix(t, "func "), strings.HasPrefix(t, "interface "):
			isIface := strings.HasPrefix(t, "interface ")
			name := strings.TrimSpace(t[strings.Index(t, " ")+1:])
			cur = &Contract{Func: name, Line: ln + 1, Loops: map[int]*LoopSpec{}, Checks: map[string][]string{}, IsIface: isIface}
			if isIface {
				p.ifaceCons[name] = cur
			} else {
				if _, dup := p.contracts[name]; dup {
					return fail("duplicate contract for %s", name)
				}
				p.contracts[name] = cur
			}
			curLoop = -1
			last = nil
			continue
		case strings.HasPrefix(t, "fieldinv "), strings.HasPrefix(t, "eleminv "), strings.HasPrefix(t, "typeinv "):
			// fieldinv T.f: expr(v)      eleminv []T: expr(v)
			kind := t[:strings.Index(t, " ")]
			rest := strings.TrimSpace(t[len(kind):])
			ci := strings.Index(rest, ":")
			if ci < 0 {
				return fail("bad %s", kind)
			}
			key, src := strings.TrimSpace(rest[:ci]), strings.TrimSpace(rest[ci+1:])
			e, err := parseExpr(src)
			if err != nil {
				return fail("%v", err)
			}
			if kind == "fieldinv" {
				p.fieldInvs[key] = &Clause{Src: src, Expr: e, Line: ln + 1}
			} else if kind == "typeinv" {
				p.typeInvs[key] = &Clause{Src: src, Expr: e, Line: ln + 1}
			} else {
				p.elemInvs[key] = &Clause{Src: src, Expr: e, Line: ln + 1}
			}
			cur = nil
			last = nil
			continue
		case strings.HasPrefix(t, "appendlemma "):
			f := strings.Fields(t)
			if len(f) != 3 {
				return fail("appendlemma <elem type> <lemma>")
			}
			p.appendLemmas[f[1]] = append(p.appendLemmas[f[1]], f[2])
			cur = nil
			last = nil
			continue
		case strings.HasPrefix(t, "ghostmap "):
			// ghostmap #name KeyType
			f := strings.Fields(t)
			if len(f) < 3 || !strings.HasPrefix(f[1], "#") {
				return fail("ghostmap #name <key type>")
			}
			spec := strings.Join(f[2:], " ")
			if i := strings.Index(spec, "->"); i >= 0 {
				p.ghostVals[f[1]] = strings.TrimSpace(spec[i+2:])
				spec = strings.TrimSpace(spec[:i])
			}
			p.ghostMaps[f[1]] = spec
			cur = nil
			last = nil
			continue
		case strings.HasPrefix(t, "guarded "):
			// guarded T.f by mu [stable]
			f := strings.Fields(t)
			if len(f) < 4 || f[2] != "by" {
				return fail("guarded T.f by <mutex field> [stable]")
			}
			dot := strings.Index(f[1], ".")
			if dot < 0 {
				return fail("guarded T.f by <mutex field>")
			}
			tn, fn := f[1][:dot], f[1][dot+1:]
			obj := p.pkg.Types.Scope().Lookup(tn)
			if obj == nil {
				return fail("guarded: unknown type %s", tn)
			}
			st, ok := structOf(obj.Type())
			if !ok {
				return fail("guarded: %s is not a struct", tn)
			}
			fi, mi := -1, -1
			for i := 0; i < st.NumFields(); i++ {
				if st.Field(i).Name() == fn {
					fi = i
				}
				if st.Field(i).Name() == f[3] {
					mi = i
				}
			}
			if fi < 0 || mi < 0 {
				return fail("guarded: %s needs direct fields %s and %s", tn, fn, f[3])
			}
			arr, _ := p.fieldArray(obj.Type(), fi)
			p.guards[arr] = guardInfo{fIdx: fi, muField: f[3], st: obj.Type(), muIdx: mi, muOff: fieldOffset(st, mi), stable: len(f) > 4 && f[4] == "stable"}
			cur = nil
			last = nil
			continue
		case strings.HasPrefix(t, "lockinv "):
			// lockinv T.mu: <expr over self>   invariant of the state guarded by the mutex field T.mu: assumed when the
			// mutex is acquired, to be re-established when it is released (used in interference mode)
			rest := strings.TrimSpace(t[len("lockinv "):])
			ci := strings.Index(rest, ":")
			if ci < 0 {
				return fail("lockinv T.mu: <expr>")
			}
			key, src := strings.TrimSpace(rest[:ci]), strings.TrimSpace(rest[ci+1:])
			dot := strings.Index(key, ".")
			if dot < 0 {
				return fail("lockinv T.mu: <expr>")
			}
			obj := p.pkg.Types.Scope().Lookup(key[:dot])
			if obj == nil {
				return fail("lockinv: unknown type %s", key[:dot])
			}
			st, ok := structOf(obj.Type())
			if !ok {
				return fail("lockinv: %s is not a struct", key[:dot])
			}
			mi := -1
			for i := 0; i < st.NumFields(); i++ {
				if st.Field(i).Name() == key[dot+1:] {
					mi = i
				}
			}
			if mi < 0 {
				return fail("lockinv: no field %s", key)
			}
			e, err := parseExpr(src)
			if err != nil {
				return fail("%v", err)
			}
			p.lockInvs[key] = &lockInv{st: obj.Type(), muIdx: mi, cl: &Clause{Src: src, Expr: e, Line: ln + 1}}
			cur = nil
			last = nil
			continue
		case strings.HasPrefix(t, "stable "):
			// stable f, g: the value of spec function f depends only on the part of the heap reachable from its reference
			// arguments, so a call that changes the arrays f reads at newly allocated locations only leaves it unchanged
			for _, n := range strings.Split(t[len("stable "):], ",") {
				p.stable[strings.TrimSpace(n)] = true
			}
			cur = nil
			last = nil
			continue
		case strings.HasPrefix(t, "comparable "):
			for _, n := range strings.Split(t[len("comparable "):], ",") {
				p.comparable[strings.TrimSpace(n)] = true
			}
			cur = nil
			last = nil
			continue
		case strings.HasPrefix(t, "spec "):
			// spec name(a T, b U) R [= expr]
			sf, err := parseSpecDecl(t[5:])
			if err != nil {
				return fail("%v", err)
			}
			sf.Line = ln + 1
			if _, dup := p.specs[sf.Name]; dup {
				return fail("duplicate spec %s", sf.Name)
			}
			p.specs[sf.Name] = sf
			cur = nil
			last = nil
			lastKind = "spec"
			continue
		case strings.HasPrefix(t, "foldaxiom "):
			lm, err := parseLemmaDecl(t[10:])
			if err != nil {
				return fail("%v", err)
			}
			lm.Line = ln + 1
			lm.Auto = true
			lm.LemmaOnly = true
			lm.Proved = "definition"
			if _, dup := p.lemmas[lm.Name]; dup {
				return fail("duplicate lemma/axiom %s", lm.Name)
			}
			p.lemmas[lm.Name] = lm
			cur = nil
			last = nil
			continue
		case strings.HasPrefix(t, "autolemma "), strings.HasPrefix(t, "autoaxiom "):
			lm, err := parseLemmaDecl(t[10:])
			if err != nil {
				return fail("%v", err)
			}
			lm.Line = ln + 1
			lm.Auto = true
			lm.Proved = "assumed"
			if strings.HasPrefix(t, "autoaxiom ") {
				lm.Proved = "definition"
			}
			if _, dup := p.lemmas[lm.Name]; dup {
				return fail("duplicate lemma/axiom %s", lm.Name)
			}
			p.lemmas[lm.Name] = lm
			cur = nil
			last = nil
			continue
		case strings.HasPrefix(t, "lemma "), strings.HasPrefix(t, "axiom "):
			lm, err := parseLemmaDecl(t[6:])
			if err != nil {
				return fail("%v", err)
			}
			lm.Line = ln + 1
			if strings.HasPrefix(t, "axiom ") {
				lm.Proved = "definition"
			} else {
				lm.Proved = "assumed"
			}
			if _, dup := p.lemmas[lm.Name]; dup {
				return fail("duplicate lemma/axiom %s", lm.Name)
			}
			p.lemmas[lm.Name] = lm
			cur = nil
			last = nil
			continue
		}
		m := reClause.FindStringSubmatch(t)
		if m == nil {
			// continuation of previous clause
			if last != nil {
				last.Src += " " + t
				continue
			}
			if lastKind == "spec" {
				return fail("continuation lines for spec not supported")
			}
			return fail("cannot parse contract line: %s", t)
		}
		if cur == nil {
			return fail("clause outside a func block: %s", t)
		}
		kw, label, props, rest := m[1], strings.Trim(m[2], "[]"), m[3], strings.TrimSpace(m[4])
		var pl []string
		if props != "" {
			for _, x := range strings.Split(strings.Trim(props, "{}"), ",") {
				pl = append(pl, strings.TrimSpace(x))
			}
		}
		cl := &Clause{Label: label, Props: pl, Src: rest, Line: ln + 1}
		last = nil
		switch kw {
		case "props":
			cur.Props = strings.Fields(strings.ReplaceAll(rest, ",", " "))
		case "requires":
			cur.Requires = append(cur.Requires, cl)
			last = cl
		case "ensures":
			cur.Ensures = append(cur.Ensures, cl)
			last = cl
		case "assumes":
			cur.Assumes = append(cur.Assumes, cl)
			last = cl
		case "atcall":
			i := strings.Index(rest, ":")
			if i <= 0 {
				return fail("atcall needs 'Callee: expr': %s", rest)
			}
			cl.Callee = strings.TrimSpace(rest[:i])
			cl.Src = strings.TrimSpace(rest[i+1:])
			cur.AtCalls = append(cur.AtCalls, cl)
			last = cl
		case "loop":
			// "loop N:" optionally followed by a clause on the same line
			parts := strings.SplitN(rest, ":", 2)
			n, err := strconv.Atoi(strings.TrimSpace(parts[0]))
			if err != nil {
				return fail("bad loop ordinal: %s", rest)
			}
			curLoop = n
			if cur.Loops[n] == nil {
				cur.Loops[n] = &LoopSpec{}
			}
			if len(parts) == 2 && strings.TrimSpace(parts[1]) != "" {
				m2 := reClause.FindStringSubmatch(strings.TrimSpace(parts[1]))
				if m2 == nil {
					return fail("bad loop clause: %s", parts[1])
				}
				var pl2 []string
				if m2[3] != "" {
					for _, x := range strings.Split(strings.Trim(m2[3], "{}"), ",") {
						pl2 = append(pl2, strings.TrimSpace(x))
					}
				}
				c2 := &Clause{Label: strings.Trim(m2[2], "[]"), Props: pl2, Src: strings.TrimSpace(m2[4]), Line: ln + 1}
				switch m2[1] {
				case "invariant":
					cur.Loops[n].Invs = append(cur.Loops[n].Invs, c2)
				case "preserves":
					cur.Loops[n].Preserves = append(cur.Loops[n].Preserves, c2)
				case "exit":
					cur.Loops[n].Exits = append(cur.Loops[n].Exits, c2)
				case "decreases":
					cur.Loops[n].Decreases = append(cur.Loops[n].Decreases, c2)
				case "use":
					cur.Loops[n].Uses = append(cur.Loops[n].Uses, c2)
				default:
					return fail("bad loop clause kind %s", m2[1])
				}
				last = c2
			}
		case "invariant":
			if curLoop < 0 {
				return fail("invariant outside loop")
			}
			cur.Loops[curLoop].Invs = append(cur.Loops[curLoop].Invs, cl)
			last = cl
		case "preserves":
			if curLoop < 0 {
				return fail("preserves outside loop")
			}
			cur.Loops[curLoop].Preserves = append(cur.Loops[curLoop].Preserves, cl)
			last = cl
		case "exit":
			if curLoop < 0 {
				return fail("exit outside loop")
			}
			cur.Loops[curLoop].Exits = append(cur.Loops[curLoop].Exits, cl)
			last = cl
		case "decreases":
			if curLoop >= 0 {
				cur.Loops[curLoop].Decreases = append(cur.Loops[curLoop].Decreases, cl)
			} else {
				cur.Decreases = append(cur.Decreases, cl)
			}
			last = cl
		case "use":
			if curLoop >= 0 {
				cur.Loops[curLoop].Uses = append(cur.Loops[curLoop].Uses, cl)
			} else {
				cur.Uses = append(cur.Uses, cl)
			}
			last = cl
		case "assigns":
			cur.HasAssigns = true
			for _, x := range strings.Split(rest, ",") {
				x = strings.TrimSpace(x)
				if x != "" && x != "nothing" {
					cur.Assigns = append(cur.Assigns, x)
				}
			}
		case "inline":
			cur.Inline = true
		case "pure":
			cur.Pure = true
		case "abstract":
			cur.Abstract = true
			if rest != "" {
				cur.Trust = append(cur.Trust, rest)
			}
		case "bounded":
			cur.Bounded = rest
		case "results":
			cur.Results = strings.Fields(strings.ReplaceAll(rest, ",", " "))
		case "trust":
			cur.Trust = append(cur.Trust, rest)
		case "check":
			// check panic overflow {C03}
			if i := strings.Index(rest, "{"); i >= 0 {
				for _, x := range strings.Split(strings.Trim(strings.TrimSpace(rest[i:]), "{}"), ",") {
					pl = append(pl, strings.TrimSpace(x))
				}
				rest = rest[:i]
			}
			for _, c := range strings.Fields(rest) {
				cur.Checks[c] = pl
			}
		case "ghost":
			cur.Ghost = append(cur.Ghost, cl)
			last = cl
		}
		if kw != "loop" && kw != "invariant" && kw != "decreases" && kw != "use" && kw != "exit" && kw != "preserves" {
			if kw == "requires" || kw == "ensures" || kw == "ghost" {
				// function-level clauses reset the loop context
				curLoop = -1
			}
		}
	}
	// parse all expressions
	parseCl := func(c *Clause) error {
		e, err := parseExpr(c.Src)
		if err != nil {
			return fmt.Errorf("%s:%d: %v", path, c.Line, err)
		}
		c.Expr = e
		return nil
	}
	all := []*Contract{}
	for _, c := range p.contracts {
		all = append(all, c)
	}
	for _, c := range p.ifaceCons {
		all = append(all, c)
	}
	for _, c := range all {
		var cls []*Clause
		cls = append(cls, c.Requires...)
		cls = append(cls, c.Ensures...)
		cls = append(cls, c.Assumes...)
		cls = append(cls, c.AtCalls...)
		cls = append(cls, c.Decreases...)
		cls = append(cls, c.Uses...)
		for _, l := range c.Loops {
			cls = append(cls, l.Invs...)
			cls = append(cls, l.Preserves...)
			cls = append(cls, l.Exits...)
			cls = append(cls, l.Decreases...)
			cls = append(cls, l.Uses...)
		}
		for _, cl := range cls {
			if err := parseCl(cl); err != nil {
				return err
			}
		}
	}
	return nil
}

var reSpec = regexp.MustCompile(`^(\w+)\(([^)]*)\)\s*([^=]+?)\s*(?:=\s*(.*))?$`)

func parseParams(s string) ([]QVar, error) {
	var out []QVar
	s = strings.TrimSpace(s)
	if s == "" {
		return nil, nil
	}
	// split on commas at depth 0
	depth := 0
	start := 0
	var parts []string
	for i, c := range s {
		switch c {
		case '(', '[', '{':
			depth++
		case ')', ']', '}':
			depth--
		case ',':
			if depth == 0 {
				parts = append(parts, s[start:i])
				start = i + 1
			}
		}
	}
	parts = append(parts, s[start:])
	for _, p := range parts {
		p = strings.TrimSpace(p)
		i := strings.IndexAny(p, " \t")
		if i < 0 {
			return nil, fmt.Errorf("bad parameter %q", p)
		}
		out = append(out, QVar{p[:i], strings.TrimSpace(p[i+1:])})
	}
	return out, nil
}

func parseSpecDecl(s string) (*SpecFn, error) {
	// name(params) ret [reads A, B] [= expr]
	open := strings.Index(s, "(")
	if open < 0 {
		return nil, fmt.Errorf("bad spec decl: %s", s)
	}
	name := strings.TrimSpace(s[:open])
	depth := 0
	close := -1
	for i := open; i < len(s); i++ {
		if s[i] == '(' {
			depth++
		}
		if s[i] == ')' {
			depth--
			if depth == 0 {
				close = i
				break
			}
		}
	}
	if close < 0 {
		return nil, fmt.Errorf("bad spec decl: %s", s)
	}
	params, err := parseParams(s[open+1 : close])
	if err != nil {
		return nil, err
	}
	rest := strings.TrimSpace(s[close+1:])
	sf := &SpecFn{Name: name, Params: params}
	if i := strings.Index(rest, " = "); i >= 0 {
		sf.DefSrc = strings.TrimSpace(rest[i+3:])
		rest = strings.TrimSpace(rest[:i])
		e, err := parseExpr(sf.DefSrc)
		if err != nil {
			return nil, err
		}
		sf.Def = e
	}
	if i := strings.Index(rest, " reads "); i >= 0 {
		for _, r := range strings.Split(rest[i+7:], ",") {
			sf.Reads = append(sf.Reads, strings.TrimSpace(r))
		}
		rest = strings.TrimSpace(rest[:i])
	}
	sf.Ret = rest
	return sf, nil
}

func parseLemmaDecl(s string) (*Lemma, error) {
	// name(params): expr
	open := strings.Index(s, "(")
	depth := 0
	close := -1
	for i := open; i >= 0 && i < len(s); i++ {
		if s[i] == '(' {
			depth++
		}
		if s[i] == ')' {
			depth--
			if depth == 0 {
				close = i
				break
			}
		}
	}
	if open < 0 || close < 0 {
		return nil, fmt.Errorf("bad lemma decl: %s", s)
	}
	params, err := parseParams(s[open+1 : close])
	if err != nil {
		return nil, err
	}
	rest := strings.TrimSpace(s[close+1:])
	pats := ""
	if strings.HasPrefix(rest, "{") {
		j := strings.Index(rest, "}")
		pats = rest[1:j]
		rest = strings.TrimSpace(rest[j+1:])
	}
	if !strings.HasPrefix(rest, ":") {
		return nil, fmt.Errorf("lemma needs ':' body: %s", s)
	}
	src := strings.TrimSpace(rest[1:])
	e, err := parseExpr(src)
	if err != nil {
		return nil, err
	}
	return &Lemma{Name: strings.TrimSpace(s[:open]), Params: params, Body: e, Src: src, Pats: pats}, nil
}


// filterForInterference: in interference mode a clause that speaks about lock-guarded state is a statement about one
// thread's sequential view and is neither assumed nor checked unless it is explicitly tagged C20 (then it must hold
// under interference). What remains are the lock discipline, the lock invariants and safety.
func (p *Program) filterForInterference() {
	var names []string
	for _, g := range p.guards {
		st, _ := structOf(g.st)
		names = append(names, "."+st.Field(g.fIdx).Name())
	}
	keep := func(c *Clause) bool {
		if hasStr(c.Props, "C20") {
			return true
		}
		for _, n := range names {
			if i := strings.Index(c.Src, n); i >= 0 {
				rest := c.Src[i+len(n):]
				if rest == "" || !(rest[0] == '_' || rest[0] >= 'a' && rest[0] <= 'z' || rest[0] >= 'A' && rest[0] <= 'Z' || rest[0] >= '0' && rest[0] <= '9') {
					return false
				}
			}
		}
		return true
	}
	filter := func(cs []*Clause) []*Clause {
		var out []*Clause
		for _, c := range cs {
			if keep(c) {
				out = append(out, c)
			}
		}
		return out
	}
	do := func(c *Contract) {
		c.Requires, c.Ensures, c.Assumes = filter(c.Requires), filter(c.Ensures), filter(c.Assumes)
		c.AtCalls = filter(c.AtCalls)
		for _, l := range c.Loops {
			l.Invs, l.Preserves, l.Exits = filter(l.Invs), filter(l.Preserves), filter(l.Exits)
		}
	}
	for _, c := range p.contracts {
		do(c)
	}
	for _, c := range p.ifaceCons {
		do(c)
	}
}
