package main

// Trusted models of functions outside the package. Everything not listed: results unconstrained
// (apart from type invariants), no effect on modelled state.

import (
	"sort"
	"fmt"
	"math/big"
	"go/constant"
	"go/token"
	"go/types"
	"strings"

	"golang.org/x/tools/go/ssa"
)

func (f *Frame) externName(fn *ssa.Function) string {
	s := fn.String()
	return s
}

func (f *Frame) callExtern(v ssa.Value, fn *ssa.Function, argVals []ssa.Value, args []T, pos token.Pos) {
	name := f.externName(fn)
	f.enc.assumed["extern "+name+": "+externDoc(name)] = true
	mkRes := func() []T {
		if v == nil {
			return nil
		}
		if tup, ok := v.Type().(*types.Tuple); ok && tup.Len() == 0 {
			return nil
		}
		rs := f.freshResults(v, v.Name())
		// an error made by strconv or time wraps no error of this package (errors.As finds no *Error in it)
		if strings.HasPrefix(name, "strconv.") || name == "time.Parse" {
			ts := []types.Type{v.Type()}
			if tup, ok := v.Type().(*types.Tuple); ok {
				ts = ts[:0]
				for i := 0; i < tup.Len(); i++ {
					ts = append(ts, tup.At(i).Type())
				}
			}
			for i, r := range rs {
				if i < len(ts) && types.TypeString(ts[i], nil) == "error" {
					et := types.NewPointer(f.lookupType("Error"))
					f.enc.factAbout(r, Eq(unwrapTerm(f.enc, f.p, r, et), Zero))
				}
			}
		}
		// references returned by code outside the package denote objects that exist now (they cannot coincide with
		// anything allocated later)
		if tup, ok := v.Type().(*types.Tuple); ok {
			for i, r := range rs {
				f.resultFactsTyped(r, tup.At(i).Type())
			}
		} else if len(rs) == 1 {
			f.resultFactsTyped(rs[0], v.Type())
		}
		return rs
	}
	switch name {
	case "fmt.Errorf", "errors.New":
		res := mkRes()
		// a fresh, non-nil error that is neither *Error nor Errors itself
		et := f.p.tagOf(types.NewPointer(f.lookupType("Error")))
		est := f.p.tagOf(f.lookupType("Errors"))
		tg := App(SInt, "tag", res[0])
		f.enc.factAbout(res[0], And(Not(Eq(tg, Zero)), Not(Eq(tg, IntLit(int64(et)))), Not(Eq(tg, IntLit(int64(est))))))
		// no *Error in the chain (fmt.Errorf is only used with sentinel or plain errors)
		f.enc.factAbout(res[0], Eq(unwrapTerm(f.enc, f.p, res[0], types.NewPointer(f.lookupType("Error"))), Zero))
		f.setResults(v, res)
	case "errors.As":
		f.externErrorsAs(v, argVals, args, pos)
	case "errors.Is":
		// a deterministic function of (err, target): false for a nil error against a non-nil target, true for the target itself
		fn := f.enc.declFun("erris", []Sort{SIface, SIface}, SBool)
		r := f.setVal(v, App(SBool, fn, args[0], args[1]))
		f.enc.factAbout(r, Implies(And(Eq(App(SInt, "tag", args[0]), Zero), Not(Eq(App(SInt, "tag", args[1]), Zero))), Not(r)))
		f.enc.factAbout(r, Implies(Eq(args[0], args[1]), r))
	case "(*sync.Mutex).Lock", "(*sync.RWMutex).Lock", "(*sync.RWMutex).RLock":
		f.lockOp(args[0], true, pos)
	case "(*sync.Mutex).Unlock", "(*sync.RWMutex).Unlock", "(*sync.RWMutex).RUnlock":
		f.lockOp(args[0], false, pos)
	case "sort.Slice":
		// sort.Slice(x, less): the elements of the slice held by x are permuted in place; nothing else changes. The comparison
		// closure is assumed to have no effect (it is called an unspecified number of times). The resulting order is not modelled.
		var et types.Type
		if mi, ok := argVals[0].(*ssa.MakeInterface); ok {
			if st, ok := mi.X.Type().Underlying().(*types.Slice); ok {
				et = st.Elem()
			}
		}
		if et == nil {
			f.enc.note("%s: sort.Slice on a value that is not a slice made into an interface at the call: effect not modelled", f.fname)
			f.setResults(v, mkRes())
			break
		}
		mi := argVals[0].(*ssa.MakeInterface)
		sl := f.val(mi.X)
		es := f.p.sortOf(et)
		arr := f.p.sliceArray(et)
		as := ArrSort(SInt, ArrSort(SInt, es))
		H := f.stGet(arr, as)
		na := f.enc.declConst(f.enc.fresh(f.sym("sorted")), ArrSort(SInt, es))
		if f.frameHook != nil {
			f.frameHook(f, &LV{kind: lvElem, arr: arr, asort: as, idx: SPtr(sl)}, mi.X, pos)
		}
		f.stSet(arr, Store(H, SPtr(sl), na))
		at := f.atFn(es)
		old := Select(H, SPtr(sl))
		off, n := SOff(sl).S, SLen(sl).S
		f.enc.addFact(na.S, fmt.Sprintf("(assert (forall ((i!s Int)) (! (=> (and (<= 0 i!s) (< i!s %[1]s)) (exists ((j!s Int)) (! (and (<= 0 j!s) (< j!s %[1]s) (= (%[2]s %[3]s %[4]s i!s) (%[2]s %[5]s %[4]s j!s))) :pattern ((%[2]s %[5]s %[4]s j!s))))) :pattern ((%[2]s %[3]s %[4]s i!s)))))", n, at, na.S, off, old.S))
		f.enc.addFact(na.S, fmt.Sprintf("(assert (forall ((j!s Int)) (! (=> (and (<= 0 j!s) (< j!s %[1]s)) (exists ((i!s Int)) (! (and (<= 0 i!s) (< i!s %[1]s) (= (%[2]s %[3]s %[4]s i!s) (%[2]s %[5]s %[4]s j!s))) :pattern ((%[2]s %[3]s %[4]s i!s))))) :pattern ((%[2]s %[5]s %[4]s j!s)))))", n, at, na.S, off, old.S))
		f.enc.addFact(na.S, fmt.Sprintf("(assert (forall ((k!s Int)) (! (=> (or (< k!s %[1]s) (<= (+ %[1]s %[2]s) k!s)) (= (select %[3]s k!s) (select %[4]s k!s))) :pattern ((select %[3]s k!s)))))", off, n, na.S, old.S))
		f.setResults(v, mkRes())
	case "strconv.ParseInt":
		res := mkRes()
		// bitSize constant: a successful parse fits the requested width
		if c, ok := argVals[2].(*ssa.Const); ok {
			if n, ok := constBig(c); ok && n.Int64() > 0 && n.Int64() < 64 {
				lim := new(big.Int).Lsh(big.NewInt(1), uint(n.Int64()-1))
				f.enc.factAbout(res[0], Implies(Eq(App(SInt, "tag", res[1]), Zero), And(Le(BigLit(new(big.Int).Neg(lim)), res[0]), Lt(res[0], BigLit(lim)))))
			}
		}
		f.setResults(v, res)
	case "strconv.ParseFloat":
		res := mkRes()
		if c, ok := argVals[1].(*ssa.Const); ok {
			if n, ok := constBig(c); ok && n.Int64() == 32 {
				// a successful 32-bit parse is convertible to float32 without overflow (or is itself Inf/NaN)
				f.enc.factAbout(res[0], Implies(Eq(App(SInt, "tag", res[1]), Zero),
					mk(SBool, "(or (fp.isInfinite %[1]s) (fp.isNaN %[1]s) (not (fp.isInfinite ((_ to_fp 8 24) RNE %[1]s))))", res[0].S)))
			}
		}
		f.setResults(v, res)
	case "math.IsNaN":
		f.setVal(v, App(SBool, "fp.isNaN", args[0]))
	case "math.IsInf":
		x, sg := args[0], args[1]
		pos := mk(SBool, "(and (fp.isInfinite %[1]s) (fp.isPositive %[1]s))", x.S)
		neg := mk(SBool, "(and (fp.isInfinite %[1]s) (fp.isNegative %[1]s))", x.S)
		f.setVal(v, Or(And(Le(Zero, sg), pos), And(Le(sg, Zero), neg)))
	case "(*bytes.Buffer).WriteByte", "(*strings.Builder).WriteByte", "(*bytes.Buffer).WriteRune", "(*strings.Builder).WriteRune":
		f.bufGrow(args[0], nil, true)
		f.setResults(v, mkRes())
	case "(*bytes.Buffer).WriteString", "(*strings.Builder).WriteString":
		n := App(SInt, "strlen", args[1])
		f.bufGrow(args[0], &n, false)
		f.setResults(v, mkRes())
	case "(*bytes.Buffer).Write", "(*strings.Builder).Write":
		n := SLen(args[1])
		f.bufGrow(args[0], &n, false)
		f.setResults(v, mkRes())
	case "(*bytes.Buffer).String", "(*strings.Builder).String":
		res := mkRes()
		f.enc.factAbout(res[0], Eq(App(SInt, "strlen", res[0]), Select(f.stGet("BUF_len", ArrSort(SInt, SInt)), args[0])))
		f.setResults(v, res)
	case "(*bytes.Buffer).Len", "(*strings.Builder).Len":
		f.setVal(v, Select(f.stGet("BUF_len", ArrSort(SInt, SInt)), args[0]))
	case "unicode/utf8.EncodeRune":
		// writes the UTF-8 encoding of r (uninterpreted bytes utf8byte(r, i), i < utf8len(r)) to the start of the buffer
		fns := utf8Fns(f.enc)
		dst, r := args[0], args[1]
		n := f.setVal(v, App(SInt, fns[0], r))
		et := argVals[0].Type().Underlying().(*types.Slice).Elem()
		es := f.p.sortOf(et)
		arr := f.p.sliceArray(et)
		as := ArrSort(SInt, ArrSort(SInt, es))
		H := f.stGet(arr, as)
		na := f.enc.declConst(f.enc.fresh(f.sym("encarr")), ArrSort(SInt, es))
		f.stSet(arr, Store(H, SPtr(dst), na))
		for i := int64(0); i < 4; i++ {
			f.enc.factAbout(na, Implies(Lt(IntLit(i), n), Eq(Select(na, Add(SOff(dst), IntLit(i))), App(SInt, fns[1], r, IntLit(i)))))
		}
		f.oblige("panic", "utf8.EncodeRune-buffer", pos, Le(IntLit(4), SLen(dst)))
	case "strconv.FormatInt", "strconv.FormatUint", "strconv.Itoa":
		// base 10 (constant): a non-empty run of digits with an optional leading minus sign
		res := mkRes()
		base10 := name == "strconv.Itoa"
		if !base10 && len(argVals) > 1 {
			if c, ok := argVals[1].(*ssa.Const); ok {
				if n, ok := constBig(c); ok && n.Int64() == 10 {
					base10 = true
				}
			}
		}
		if base10 {
			f.enc.addFact(res[0].S, fmt.Sprintf("(assert (and (<= 1 (strlen %[1]s)) (forall ((i!n Int)) (! (=> (and (<= 0 i!n) (< i!n (strlen %[1]s))) (or (= (byteAt %[1]s i!n) 45) (and (<= 48 (byteAt %[1]s i!n)) (<= (byteAt %[1]s i!n) 57)))) :pattern ((byteAt %[1]s i!n))))))", res[0].S))
		}
		f.setResults(v, res)
	case "strconv.FormatFloat":
		// format 'g' of a finite value: digits, sign, point and exponent characters only
		res := mkRes()
		if c, ok := argVals[1].(*ssa.Const); ok {
			if n, ok := constBig(c); ok && n.Int64() == 'g' && isFloatSort(args[0].Sort) {
				fin := mk(SBool, "(not (or (fp.isNaN %[1]s) (fp.isInfinite %[1]s)))", args[0].S)
				f.enc.addFact(res[0].S, fmt.Sprintf("(assert (=> %[2]s (and (<= 1 (strlen %[1]s)) (forall ((i!n Int)) (! (=> (and (<= 0 i!n) (< i!n (strlen %[1]s))) (or (= (byteAt %[1]s i!n) 45) (= (byteAt %[1]s i!n) 43) (= (byteAt %[1]s i!n) 46) (= (byteAt %[1]s i!n) 101) (and (<= 48 (byteAt %[1]s i!n)) (<= (byteAt %[1]s i!n) 57)))) :pattern ((byteAt %[1]s i!n)))))))", res[0].S, fin.S))
			}
		}
		f.setResults(v, res)
	case "(time.Time).Format":
		// RFC 3339 layouts produce digits and the punctuation of the layout only
		res := mkRes()
		if c, ok := argVals[1].(*ssa.Const); ok && c.Value != nil && c.Value.Kind() == constant.String {
			switch constant.StringVal(c.Value) {
			case "2006-01-02T15:04:05.999999999Z07:00", "2006-01-02T15:04:05Z07:00":
				f.enc.addFact(res[0].S, fmt.Sprintf("(assert (forall ((i!n Int)) (! (=> (and (<= 0 i!n) (< i!n (strlen %[1]s))) (or (= (byteAt %[1]s i!n) 45) (= (byteAt %[1]s i!n) 43) (= (byteAt %[1]s i!n) 46) (= (byteAt %[1]s i!n) 58) (= (byteAt %[1]s i!n) 84) (= (byteAt %[1]s i!n) 90) (and (<= 48 (byteAt %[1]s i!n)) (<= (byteAt %[1]s i!n) 57)))) :pattern ((byteAt %[1]s i!n)))))", res[0].S))
			}
		}
		f.setResults(v, res)
	case "bytes.Repeat":
		// count copies of a one-byte pattern: every element is that byte
		res := mkRes()
		f.oblige("panic", "bytes.Repeat-negative", pos, Le(Zero, args[1]))
		et := argVals[0].Type().Underlying().(*types.Slice).Elem()
		es := f.p.sortOf(et)
		arr := f.p.sliceArray(et)
		as := ArrSort(SInt, ArrSort(SInt, es))
		H := f.stGet(arr, as)
		pat := atTerm(f.enc, es, Select(H, SPtr(args[0])), SOff(args[0]), Zero)
		f.enc.factAbout(res[0], Implies(Eq(SLen(args[0]), IntLit(1)), Eq(SLen(res[0]), args[1])))
		f.enc.addFact(res[0].S, fmt.Sprintf("(assert (=> (= %[1]s 1) (forall ((i!r Int)) (! (=> (and (<= 0 i!r) (< i!r (slen %[2]s))) (= (%[3]s (select %[4]s (sptr %[2]s)) (soff %[2]s) i!r) %[5]s)) :pattern ((%[3]s (select %[4]s (sptr %[2]s)) (soff %[2]s) i!r))))))", SLen(args[0]).S, res[0].S, f.atFn(es), H.S, pat.S))
		f.setResults(v, res)
	case "strings.HasPrefix":
		// exact for a constant prefix: the string is long enough and starts with those bytes
		if c, ok := argVals[1].(*ssa.Const); ok && c.Value != nil {
			lit := constant.StringVal(c.Value)
			conds := []T{Le(IntLit(int64(len(lit))), App(SInt, "strlen", args[0]))}
			for i := 0; i < len(lit); i++ {
				conds = append(conds, Eq(App(SInt, "byteAt", args[0], IntLit(int64(i))), IntLit(int64(lit[i]))))
			}
			f.setVal(v, And(conds...))
		} else {
			f.setResults(v, mkRes())
		}
	case "strings.Repeat":
		f.oblige("panic", "strings.Repeat-negative", pos, Le(Zero, args[1]))
		f.setResults(v, mkRes())
	case "(reflect.Value).Call":
		if f.checks("lock") {
			// application code (a reflected resolver method) runs with no library mutex held: a method that blocks or
			// re-enters the library can then neither stall other requests nor deadlock
			// (mutexes the caller already held on entry are the caller's business: the registry lock in AddEvent)
			h := f.stGet("held", ArrSort(SInt, SBool))
			h0 := stLookup(f.enc, f.entrySt, "held")
			f.oblige("lock", "user-code-called-unlocked", pos, T{fmt.Sprintf("(forall ((m!h Int)) (=> (select %s m!h) (select %s m!h)))", h.S, h0.S), SBool})
		}
		if f.checks("panic") {
			vt := argVals[0].Type()
			es := f.p.sortOf(vt)
			inner := Select(f.stGet(f.p.sliceArray(vt), ArrSort(SInt, ArrSort(SInt, es))), SPtr(args[1]))
			f.oblige("panic", "reflect.Call-args-match", pos, f.reflectCallOK([]T{args[0], args[1], inner}))
		}
		f.ghostInc("#res")
		f.setResults(v, mkRes())
	case "reflect.TypeOf":
		// a deterministic function of the interface value; nil exactly for a nil interface
		fn := f.enc.declFun("rtypeof", []Sort{SIface}, SIface)
		r := f.setVal(v, App(SIface, fn, args[0]))
		f.enc.factAbout(r, Eq(Eq(App(SInt, "tag", r), Zero), Eq(App(SInt, "tag", args[0]), Zero)))
	case "reflect.ValueOf":
		// valid exactly for a non-nil interface argument
		res := mkRes()
		f.enc.factAbout(res[0], Eq(rvValid(f.enc, res[0]), Not(Eq(App(SInt, "tag", args[0]), Zero))))
		f.setResults(v, res)
	case "reflect.Zero":
		f.oblige("panic", "reflect.Zero-nil-type", pos, Not(Eq(App(SInt, "tag", args[0]), Zero)))
		res := mkRes()
		f.enc.factAbout(res[0], And(rvValid(f.enc, res[0]), Eq(rvType(f.enc, res[0]), args[0])))
		f.setResults(v, res)
	case "(reflect.Value).CanSet", "(reflect.Value).CanInterface", "(reflect.Value).CanAddr":
		// only a valid Value can be settable / addressable / interfaceable
		fnn := f.enc.declFun("rv_"+sanitize(fn.Name()), []Sort{args[0].Sort}, SBool)
		r := f.setVal(v, App(SBool, fnn, args[0]))
		f.enc.factAbout(r, Implies(r, rvValid(f.enc, args[0])))
	case "(reflect.Value).IsValid":
		f.setVal(v, rvValid(f.enc, args[0]))
	case "(reflect.Value).Type":
		f.oblige("panic", "reflect.Value.Type-of-invalid", pos, rvValid(f.enc, args[0]))
		r := f.setVal(v, rvType(f.enc, args[0]))
		f.enc.factAbout(r, Implies(rvValid(f.enc, args[0]), Not(Eq(App(SInt, "tag", r), Zero))))
	case "reflect.New":
		// a valid Value holding a non-nil pointer to a new zero value of the type
		f.oblige("panic", "reflect.New-nil-type", pos, Not(Eq(App(SInt, "tag", args[0]), Zero)))
		res := mkRes()
		fnn := f.enc.declFun("rv_newptr", []Sort{res[0].Sort}, SBool)
		f.enc.factAbout(res[0], And(rvValid(f.enc, res[0]), App(SBool, fnn, res[0])))
		f.setResults(v, res)
	case "(reflect.Value).Interface":
		// Interface panics on the zero Value. Checked for a receiver that is a local variable (a merge of assignments, a
		// constant, a load of a local): the Values handed out by other reflect calls (Index, Call, Field ...) are not
		// modelled closely enough to decide validity and are assumed valid.
		local := false
		switch x := argVals[0].(type) {
		case *ssa.Phi, *ssa.Const:
			local = true
		case *ssa.UnOp:
			_, local = x.X.(*ssa.Alloc)
		}
		if local {
			f.oblige("panic", "reflect.Value.Interface-of-invalid", pos, rvValid(f.enc, args[0]))
		}
		defer func() {
			if r, ok := f.vals[v]; ok {
				fnn := f.enc.declFun("rv_newptr", []Sort{args[0].Sort}, SBool)
				f.enc.factAbout(r, Implies(App(SBool, fnn, args[0]), Not(Eq(App(SInt, "tag", r), Zero))))
			}
		}()
		// Interface panics on a Value obtained through an unexported struct field. Checked when the receiver comes
		// straight from a struct-field accessor (the only source of such Values in this package); otherwise assumed.
		if cl, ok := argVals[0].(*ssa.Call); ok && f.checks("panic") {
			if cf := cl.Call.StaticCallee(); cf != nil {
				switch cf.Name() {
				case "FieldByName", "FieldByNameFunc", "Field", "FieldByIndex":
					fnn := f.enc.declFun("rv_CanInterface", []Sort{args[0].Sort}, SBool)
					f.oblige("panic", "reflect.Value.Interface-of-unexported-field", pos, App(SBool, fnn, args[0]))
				}
			}
		}
		f.enc.assumed[name+" assumed not to panic on Values not obtained from a struct-field accessor"] = true
		f.setResults(v, mkRes())
	case "(reflect.Value).Elem", "(reflect.Value).Index", "(reflect.Value).Len", "(reflect.Value).Field", "(reflect.Value).FieldByName", "(reflect.Value).IsNil", "(reflect.Value).NumMethod", "(reflect.Value).Method", "(reflect.Value).Set", "(reflect.Value).SetMapIndex", "(reflect.Value).MapIndex", "(reflect.Value).NumField":
		if f.checks("panic") && !f.checks("reflect") {
			f.enc.assumed[name+" assumed not to panic (kind preconditions of package reflect are not modelled)"] = true
		}
		if f.checks("reflect") {
			fnn := f.enc.declFun("reflect_ok_"+sanitize(name), sortsOf(args), SBool)
			f.oblige("reflect", "reflect:"+fn.Name(), pos, App(SBool, fnn, args...))
		}
		f.setResults(v, mkRes())
	default:
		res := mkRes()
		if res != nil {
			f.setResults(v, res)
		}
	}
}

// bufGrow: length-level model of bytes.Buffer / strings.Builder: BUF_len[buffer] grows by n bytes (by at least one
// and at most four for a rune / byte write when atLeastOne is set and n is nil).
func (f *Frame) bufGrow(buf T, n *T, atLeastOne bool) {
	sort := ArrSort(SInt, SInt)
	cur := f.stGet("BUF_len", sort)
	var inc T
	if n != nil {
		inc = *n
	} else {
		inc = f.enc.declConst(f.enc.fresh(f.sym("bufinc")), SInt)
		f.enc.factAbout(inc, And(Le(IntLit(1), inc), Le(inc, IntLit(4))))
	}
	f.stSet("BUF_len", Store(cur, buf, Add(Select(cur, buf), inc)))
}

func sortsOf(ts []T) []Sort {
	out := make([]Sort, len(ts))
	for i, t := range ts {
		out[i] = t.Sort
	}
	return out
}

// reflect.Value as an opaque value with two observers: validity and dynamic type
func rvValid(e *Enc, v T) T {
	e.declSortOf(v.Sort)
	return App(SBool, e.declFun("rv_valid", []Sort{v.Sort}, SBool), v)
}

func rvType(e *Enc, v T) T {
	e.declSortOf(v.Sort)
	return App(SIface, e.declFun("rv_type", []Sort{v.Sort}, SIface), v)
}

func (f *Frame) reflectCallOK(args []T) T {
	fn := f.enc.declFun("reflect_call_ok", sortsOf(args), SBool)
	(&Translator{f: f}).installAutoLemmas("callok", fn)
	return App(SBool, fn, args...)
}

func (f *Frame) ghostInc(name string) {
	cur := f.stGet(name, SInt)
	f.stSet(name, Add(cur, IntLit(1)))
}

func externDoc(name string) string {
	switch {
	case name == "fmt.Errorf" || name == "errors.New":
		return "returns a fresh non-nil error whose dynamic type is neither *Error nor Errors and whose chain holds no *Error"
	case name == "reflect.TypeOf":
		return "a deterministic function of the interface value (its dynamic type); nil exactly for a nil interface"
	case name == "reflect.ValueOf" || name == "reflect.Zero" || name == "reflect.New" || name == "(reflect.Value).Interface" || name == "(reflect.Value).IsValid" || name == "(reflect.Value).Type":
		return "reflect.Value modelled by validity and dynamic type: ValueOf(x) is valid iff x is a non-nil interface; Zero(t) is valid with type t; Type and Interface panic on an invalid Value; New(t) is valid and its Interface is a non-nil pointer"
	case name == "(reflect.Value).Call":
		return "does not panic when the callee is valid, the argument count fits its type and every argument is valid and assignable to its parameter (contract axiom callOkDef); results unconstrained"
	case name == "errors.Is":
		return "deterministic in (err, target); false for a nil error against a non-nil target, true when err is the target itself"
	case name == "errors.As":
		return "finds the first *Error / Errors in the chain; exact when the error itself has the target type"
	case name == "strconv.ParseInt" || name == "strconv.ParseFloat":
		return "a successful parse fits the requested bit size; value otherwise unconstrained; the error wraps no *Error of this package"
	case name == "sort.Slice":
		return "permutes the elements of the slice in place (every element kept, none added; the resulting order is not modelled); the comparison closure is assumed to have no effect"
	case name == "time.Parse" || strings.HasPrefix(name, "strconv."):
		return "results unconstrained, no effect on modelled ggql state; the error wraps no *Error of this package"
	case name == "strings.HasPrefix":
		return "exact for a constant prefix (length and leading bytes); unconstrained otherwise"
	case strings.HasPrefix(name, "math.Is"):
		return "exact IEEE-754 semantics"
	case strings.Contains(name, "sync."):
		return "mutex semantics (ghost held-set)"
	}
	return "results unconstrained, no effect on modelled ggql state"
}

func (f *Frame) lookupType(name string) types.Type {
	obj := f.p.pkg.Types.Scope().Lookup(name)
	if obj == nil {
		panic("no type " + name)
	}
	return obj.Type()
}

// errors.As(err, &target): target is *(*Error) or *Errors.
func (f *Frame) externErrorsAs(v ssa.Value, argVals []ssa.Value, args []T, pos token.Pos) {
	ok := f.enc.declConst(f.enc.fresh(f.sym(v.Name()+"_as")), SBool)
	f.vals[v] = ok
	mi, isMI := argVals[1].(*ssa.MakeInterface)
	if !isMI {
		return
	}
	ptr, isPtr := mi.X.Type().Underlying().(*types.Pointer)
	if !isPtr {
		return
	}
	target := ptr.Elem()
	lv := f.lvOf(mi.X)
	errv := args[0]
	s := f.p.sortOf(target)
	tg := IntLit(int64(f.p.tagOf(target)))
	exact := Eq(App(SInt, "tag", errv), tg)
	// deterministic: the first value of the target type in the error's chain
	found := unwrapTerm(f.enc, f.p, errv, target)
	if s == SInt {
		f.enc.factAbout(ok, Eq(ok, Not(Eq(found, Zero))))
		f.enc.factAbout(ok, Implies(ok, Le(found, f.alloc())))
	} else {
		f.enc.factAbout(ok, Implies(exact, ok))
		f.enc.factAbout(ok, Implies(Eq(App(SInt, "tag", errv), Zero), Not(ok)))
	}
	old := f.load(lv, target)
	f.store(lv, Ite(ok, found, old))
}

// unwrapTerm: errors.As target lookup as a deterministic function of the error value.
func unwrapTerm(e *Enc, p *Program, errv T, target types.Type) T {
	s := p.sortOf(target)
	fn := e.declFun("unwrap_"+sanitize(types.TypeString(target, nil)), []Sort{SIface}, s)
	tg := IntLit(int64(p.tagOf(target)))
	pl := "pl_" + sortSuffix(s)
	// axioms of the lookup, attached to the function symbol
	if len(e.facts[fn]) == 0 {
		e.addFact(fn, fmt.Sprintf("(assert (forall ((e!u Iface)) (! (=> (= (tag e!u) %s) (= (%s e!u) (%s e!u))) :pattern ((%s e!u)))))", tg.S, fn, pl, fn))
		if s == SInt {
			e.addFact(fn, fmt.Sprintf("(assert (forall ((e!u Iface)) (! (and (<= 0 (%s e!u)) (=> (= (tag e!u) 0) (= (%s e!u) 0))) :pattern ((%s e!u)))))", fn, fn, fn))
		}
	}
	return App(s, fn, errv)
}

// ---- locks (ghost held-set keyed by the mutex address term) ----

func (f *Frame) lockOp(mu T, acquire bool, pos token.Pos) {
	name := "held"
	sort := ArrSort(SInt, SBool)
	h := f.stGet(name, sort)
	if acquire {
		if f.checks("lock") {
			f.oblige("lock", "no-double-lock", pos, Not(Select(h, mu)))
		}
		f.stSet(name, Store(h, mu, True))
		// entering a critical section: other threads may have changed guarded state
		f.acquireHavoc(mu)
	} else {
		if f.checks("lock") {
			f.oblige("lock", "unlock-held", pos, Select(h, mu))
		}
		// leaving the critical section: the lock invariant must hold again (interference mode)
		f.lockInvariant(mu, true, pos)
		f.stSet(name, Store(h, mu, False))
	}
}

// acquireHavoc (interference mode): entering a critical section, the state guarded by the acquired mutex may have been
// changed by other threads since this thread last saw it. Every field declared `guarded T.f by mu` of the object whose
// mutex is acquired gets an arbitrary value (for a slice: also arbitrary contents), and the lock invariant declared
// with `lockinv T.mu` is assumed for it. The mutex is identified through the inverses of its identity term.
func (f *Frame) acquireHavoc(mu T) {
	if !f.p.interference {
		return
	}
	base := App(SInt, "muid_base", mu)
	fld := App(SInt, "muid_field", mu)
	var arrs []string
	for a := range f.p.guards {
		arrs = append(arrs, a)
	}
	sort.Strings(arrs)
	for _, arr := range arrs {
		g := f.p.guards[arr]
		cond := Eq(fld, IntLit(int64(f.p.muID(g.st, g.muIdx))))
		st, _ := structOf(g.st)
		ft := st.Field(g.fIdx).Type()
		_, asort := f.p.fieldArray(g.st, g.fIdx)
		_, vs := arrParts(asort)
		f.enc.declSortOf(vs)
		old := f.stGet(arr, asort)
		nv := f.enc.declConst(f.enc.fresh(f.sym("guarded_"+st.Field(g.fIdx).Name())), vs)
		f.stSet(arr, Ite(cond, Store(old, base, nv), old))
		f.loadFacts(nv, ft)
		if sl, ok := ft.Underlying().(*types.Slice); ok {
			es := f.p.sortOf(sl.Elem())
			f.enc.declSortOf(es)
			sh := f.p.sliceArray(sl.Elem())
			shs := ArrSort(SInt, ArrSort(SInt, es))
			S := f.stGet(sh, shs)
			inner := f.enc.declConst(f.enc.fresh(f.sym("guarded_contents")), ArrSort(SInt, es))
			f.stSet(sh, Ite(cond, Store(S, SPtr(nv), inner), S))
		}
	}
	f.lockInvariant(mu, false, token.NoPos)
	f.enc.assumed["interference mode: on acquiring a mutex the fields it guards hold arbitrary values satisfying the declared lock invariant"] = true
}

// lockInvariant: assume (acquire) or oblige (release) the invariants declared with `lockinv` for the mutex mu.
func (f *Frame) lockInvariant(mu T, check bool, pos token.Pos) {
	if !f.p.interference {
		return
	}
	base := App(SInt, "muid_base", mu)
	fld := App(SInt, "muid_field", mu)
	var keys []string
	for k := range f.p.lockInvs {
		keys = append(keys, k)
	}
	sort.Strings(keys)
	for _, k := range keys {
		li := f.p.lockInvs[k]
		cond := Eq(fld, IntLit(int64(f.p.muID(li.st, li.muIdx))))
		tr := &Translator{f: f, cur: f.st, old: f.st, bound: map[string]tv{"self": {base, types.NewPointer(li.st)}}}
		inv := tr.boolExpr(li.cl.Expr)
		if check {
			if f.checks("lock") {
				f.oblige("lock", "invariant-restored("+k+")", pos, Implies(cond, inv))
			}
		} else {
			f.assume(Implies(cond, inv))
		}
	}
}

var _ = fmt.Sprintf
