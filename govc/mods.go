package main

// Modification-set analysis: which state variables (heap arrays, ghost counters) a function or
// loop may change. Entries are "hard" (may change existing objects) or "fresh" (only objects
// allocated inside the function/loop are written).

import (
	"go/types"

	"golang.org/x/tools/go/ssa"
)

type ModKind int

const (
	ModFresh ModKind = 1
	ModHard  ModKind = 2
)

type ModSet map[string]ModKind

func (m ModSet) add(name string, k ModKind) bool {
	if old, ok := m[name]; !ok || old < k {
		m[name] = k
		return true
	}
	return false
}

func (m ModSet) union(o ModSet) bool {
	ch := false
	for k, v := range o {
		if m.add(k, v) {
			ch = true
		}
	}
	return ch
}

// rootAlloc follows FieldAddr/IndexAddr chains to the base value.
func rootOf(v ssa.Value) ssa.Value {
	for {
		switch x := v.(type) {
		case *ssa.FieldAddr:
			v = x.X
		case *ssa.IndexAddr:
			if _, ok := x.X.Type().Underlying().(*types.Pointer); ok {
				v = x.X // pointer to array
			} else {
				return x.X // slice value
			}
		default:
			return v
		}
	}
}

func isFreshRoot(v ssa.Value, inScope func(ssa.Instruction) bool) bool {
	switch x := v.(type) {
	case *ssa.Alloc:
		return inScope(x)
	case *ssa.MakeMap:
		return inScope(x)
	case *ssa.MakeSlice:
		return inScope(x)
	case *ssa.Slice:
		// slice of a fresh array: new [N]T then t[:]
		if a, ok := x.X.(*ssa.Alloc); ok {
			return inScope(a)
		}
	}
	return false
}

func (p *Program) cellArray(t types.Type) string {
	return "Cell_" + sortSuffix(p.sortOf(t))
}

// sliceArray: the heap array holding the backing arrays of slices with this element type. One array per element sort,
// except that slices of the schema's Type interface have their own: no []Type can share memory with a []interface{} or an
// []error (Go has no conversion between slices of different element types), and keeping them apart means that building
// an error (a []interface{} of format arguments, an append to []error) leaves every type list of the schema untouched.
func (p *Program) sliceArray(elem types.Type) string {
	if n, ok := elem.(*types.Named); ok && n.Obj().Pkg() == p.pkg.Types && n.Obj().Name() == "Type" {
		return "SH_Iface$Type"
	}
	return "SH_" + sortSuffix(p.sortOf(elem))
}

func (p *Program) mapArrays(mt *types.Map) (string, string) {
	ks, vs := sortSuffix(p.sortOf(mt.Key())), sortSuffix(p.sortOf(mt.Elem()))
	return "MH_" + ks + "_" + vs, "MD_" + ks + "_" + vs
}

// storeTarget names the state variable written by a store through addr.
func (p *Program) storeTarget(addr ssa.Value) string {
	switch a := addr.(type) {
	case *ssa.FieldAddr:
		st := a.X.Type().Underlying().(*types.Pointer).Elem()
		name, _ := p.fieldArray(st, a.Field)
		return name
	case *ssa.IndexAddr:
		switch xt := a.X.Type().Underlying().(type) {
		case *types.Slice:
			return p.sliceArray(xt.Elem())
		case *types.Pointer:
			return p.sliceArray(xt.Elem().Underlying().(*types.Array).Elem())
		}
	case *ssa.Global:
		return "G_" + a.Name()
	}
	pt, ok := addr.Type().Underlying().(*types.Pointer)
	if !ok {
		return "Cell_unknown"
	}
	return p.cellArray(pt.Elem())
}

// zeroInitTargets lists arrays written when allocating a value of type t.
func (p *Program) zeroInitTargets(t types.Type, out ModSet) {
	switch u := t.Underlying().(type) {
	case *types.Struct:
		if !p.ownStruct(t) {
			return
		}
		for i := 0; i < u.NumFields(); i++ {
			ft := u.Field(i).Type()
			if _, ok := structOf(ft); ok {
				p.zeroInitTargets(ft, out)
				continue
			}
			name, _ := p.fieldArray(t, i)
			out.add(name, ModFresh)
		}
	case *types.Array:
		out.add(p.sliceArray(u.Elem()), ModFresh)
	default:
		out.add(p.cellArray(t), ModFresh)
	}
}

// ownStruct: struct types whose fields we model (package types and anonymous structs).
func (p *Program) ownStruct(t types.Type) bool {
	if n, ok := t.(*types.Named); ok {
		return n.Obj().Pkg() == p.pkg.Types
	}
	_, ok := t.Underlying().(*types.Struct)
	return ok
}

func (p *Program) instrMods(in ssa.Instruction, inScope func(ssa.Instruction) bool, out ModSet) {
	switch x := in.(type) {
	case *ssa.Store:
		k := ModHard
		if isFreshRoot(rootOf(x.Addr), inScope) {
			k = ModFresh
		}
		out.add(p.storeTarget(x.Addr), k)
	case *ssa.MapUpdate:
		mt := x.Map.Type().Underlying().(*types.Map)
		k := ModHard
		if isFreshRoot(x.Map, inScope) {
			k = ModFresh
		}
		h, d := p.mapArrays(mt)
		out.add(h, k)
		out.add(d, k)
	case *ssa.Alloc:
		out.add("alloc", ModHard)
		p.zeroInitTargets(x.Type().Underlying().(*types.Pointer).Elem(), out)
		if n, ok := x.Type().Underlying().(*types.Pointer).Elem().(*types.Named); ok && n.Obj().Pkg() != nil && (n.Obj().Pkg().Path() == "bytes" && n.Obj().Name() == "Buffer" || n.Obj().Pkg().Path() == "strings" && n.Obj().Name() == "Builder") {
			out.add("BUF_len", ModFresh)
		}
	case *ssa.MakeMap:
		out.add("alloc", ModHard)
		h, d := p.mapArrays(x.Type().Underlying().(*types.Map))
		out.add(h, ModFresh)
		out.add(d, ModFresh)
	case *ssa.MakeSlice:
		out.add("alloc", ModHard)
		out.add(p.sliceArray(x.Type().Underlying().(*types.Slice).Elem()), ModFresh)
	case *ssa.Convert:
		// []byte(string) allocates a fresh array
		if st, ok := x.Type().Underlying().(*types.Slice); ok {
			if _, isStr := x.X.Type().Underlying().(*types.Basic); isStr {
				out.add("alloc", ModHard)
				out.add(p.sliceArray(st.Elem()), ModFresh)
			}
		}
	case *ssa.MakeClosure, *ssa.MakeInterface:
		// no heap effect in the model
	case *ssa.Next:
		out.add("IT_"+x.Iter.Name(), ModHard)
	case *ssa.Range:
		out.add("IT_"+x.Name(), ModHard)
	case ssa.CallInstruction:
		p.callMods(x, out)
	}
}

func (p *Program) callMods(ci ssa.CallInstruction, out ModSet) {
	c := ci.Common()
	if c.IsInvoke() {
		out.add("alloc", ModHard)
		key := p.ifaceMethodKey(c.Value.Type(), c.Method.Name())
		if con, ok := p.ifaceCons[key]; ok && (con.HasAssigns || con.Pure) {
			p.contractMods(con, c.Method.Type().(*types.Signature), out)
			return
		}
		for _, fn := range p.implsOf(c.Value.Type(), c.Method) {
			out.union(p.modsetOf(fn))
		}
		return
	}
	switch f := c.Value.(type) {
	case *ssa.Builtin:
		switch f.Name() {
		case "append":
			out.add("alloc", ModHard)
			out.add(p.sliceArray(c.Args[0].Type().Underlying().(*types.Slice).Elem()), ModFresh)
		case "copy":
			out.add(p.sliceArray(c.Args[0].Type().Underlying().(*types.Slice).Elem()), ModHard)
		case "delete":
			mt := c.Args[0].Type().Underlying().(*types.Map)
			h, d := p.mapArrays(mt)
			out.add(h, ModHard)
			out.add(d, ModHard)
		}
	case *ssa.Function:
		out.add("alloc", ModHard)
		if f.Pkg == p.spkg || (f.Pkg == nil && f.Object() != nil && f.Object().Pkg() == p.pkg.Types) {
			out.union(p.modsetOf(f))
		} else {
			p.externMods(f, c, out)
		}
	case *ssa.MakeClosure:
		out.add("alloc", ModHard)
		if fn, ok := f.Fn.(*ssa.Function); ok {
			out.union(p.modsetOf(fn))
		}
	default:
		out.add("alloc", ModHard)
	}
}

func (p *Program) contractMods(con *Contract, sig *types.Signature, out ModSet) {
	if sig != nil {
		locs, _, err := p.assignLocs(con, sig)
		if err == nil {
			for _, l := range locs {
				out.add(l.array, ModHard)
			}
		}
	}
	for _, g := range con.Ghost {
		// "#name += n"
		f := ghostName(g.Src)
		if f != "" {
			out.add(f, ModHard)
		}
	}
}

func ghostName(src string) string {
	for i, c := range src {
		if c == ' ' || c == '+' || c == '=' || c == '[' {
			return src[:i]
		}
	}
	return src
}

// modsetOf: the modset of a function as seen by its callers.
func (p *Program) modsetOf(fn *ssa.Function) ModSet {
	name := p.fname(fn)
	if con, ok := p.contracts[name]; ok && con.HasAssigns {
		ms := ModSet{}
		ms.add("alloc", ModHard)
		p.contractMods(con, fn.Signature, ms)
		if hasStr(con.Assigns, "fresh") {
			for k := range bodyCache[fn] {
				ms.add(k, ModFresh)
			}
		}
		return ms
	}
	if ms, ok := bodyCache[fn]; ok {
		return ms
	}
	return ModSet{}
}

var bodyCache = map[*ssa.Function]ModSet{}

// computeMods: global fixpoint over all functions of the package.
func (p *Program) computeMods() {
	var fns []*ssa.Function
	for _, fn := range p.funcs {
		fns = append(fns, fn)
	}
	for _, fn := range fns {
		bodyCache[fn] = ModSet{}
	}
	for iter := 0; iter < 50; iter++ {
		changed := false
		for _, fn := range fns {
			if fn.Blocks == nil {
				continue
			}
			tmp := ModSet{}
			for _, b := range fn.Blocks {
				for _, in := range b.Instrs {
					p.instrMods(in, func(ssa.Instruction) bool { return true }, tmp)
				}
			}
			if bodyCache[fn].union(tmp) {
				changed = true
			}
		}
		if !changed {
			return
		}
	}
}

func hasStr(xs []string, s string) bool {
	for _, x := range xs {
		if x == s {
			return true
		}
	}
	return false
}

func (p *Program) ifaceMethodKey(t types.Type, method string) string {
	return p.typeName(t) + "." + method
}

// implsOf: in-package concrete methods implementing the interface method.
func (p *Program) implsOf(it types.Type, m *types.Func) []*ssa.Function {
	key := p.ifaceMethodKey(it, m.Name())
	if fs, ok := p.impls[key]; ok {
		return fs
	}
	iface, ok := it.Underlying().(*types.Interface)
	var out []*ssa.Function
	if ok {
		for _, mem := range p.spkg.Members {
			tn, ok := mem.(*ssa.Type)
			if !ok {
				continue
			}
			for _, T := range []types.Type{tn.Type(), types.NewPointer(tn.Type())} {
				if _, isI := T.Underlying().(*types.Interface); isI {
					continue
				}
				if types.Implements(T, iface) {
					sel := p.prog.MethodSets.MethodSet(T).Lookup(m.Pkg(), m.Name())
					if sel != nil {
						if fn := p.prog.MethodValue(sel); fn != nil {
							out = append(out, fn)
						}
					}
				}
			}
		}
	}
	p.impls[key] = out
	return out
}

// externMods: effects of functions outside the package on modelled state.
func (p *Program) externMods(f *ssa.Function, c *ssa.CallCommon, out ModSet) {
	name := f.String()
	switch name {
	case "(*bytes.Buffer).WriteByte", "(*strings.Builder).WriteByte", "(*bytes.Buffer).WriteRune", "(*strings.Builder).WriteRune",
		"(*bytes.Buffer).WriteString", "(*strings.Builder).WriteString", "(*bytes.Buffer).Write", "(*strings.Builder).Write":
		out.add("BUF_len", ModHard)
	case "unicode/utf8.EncodeRune":
		if len(c.Args) == 2 {
			if st, ok := c.Args[0].Type().Underlying().(*types.Slice); ok {
				out.add(p.sliceArray(st.Elem()), ModHard)
			}
		}
	case "sort.Slice":
		// permutes the elements of the slice in place
		if len(c.Args) == 2 {
			if mi, ok := c.Args[0].(*ssa.MakeInterface); ok {
				if st, ok := mi.X.Type().Underlying().(*types.Slice); ok {
					out.add(p.sliceArray(st.Elem()), ModHard)
				}
			}
		}
	case "errors.As":
		// writes the target cell
		if len(c.Args) == 2 {
			if pt, ok := c.Args[1].Type().Underlying().(*types.Interface); ok {
				_ = pt
			}
			if mi, ok := c.Args[1].(*ssa.MakeInterface); ok {
				if ptr, ok := mi.X.Type().Underlying().(*types.Pointer); ok {
					out.add(p.cellArray(ptr.Elem()), ModHard)
				}
			}
		}
	}
}
