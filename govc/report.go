package main

import (
	"encoding/json"
	"fmt"
	"os"
	"path/filepath"
	"sort"
	"strings"
	"time"
)

type KnownFinding struct {
	Property   string `json:"property"`
	Func       string `json:"func"`
	Obligation string `json:"obligation"`
	What       string `json:"what"`
	Witness    string `json:"witness,omitempty"`
}

type KnownFile struct {
	Known []KnownFinding `json:"known"`
	Fixed []string       `json:"fixed"`
}

func loadKnown(path string) KnownFile {
	var kf KnownFile
	data, err := os.ReadFile(path)
	if err != nil {
		return kf
	}
	if err := json.Unmarshal(data, &kf); err != nil {
		fmt.Fprintln(os.Stderr, "govc: cannot parse known findings:", err)
		os.Exit(2)
	}
	return kf
}

func (r *Run) report(noEvidence bool) int {
	kf := loadKnown(filepath.Join(r.verifDir, "known_findings.json"))
	known := map[string]KnownFinding{}
	for _, k := range kf.Known {
		if r.prop == "" || k.Property == r.prop {
			known[k.Func+" :: "+k.Obligation] = k
		}
	}
	type row struct {
		Func     string  `json:"func"`
		Name     string  `json:"obligation"`
		Class    string  `json:"class"`
		Status   string  `json:"status"`
		Solver   string  `json:"solver"`
		Seconds  float64 `json:"seconds"`
		Agree    []string `json:"also_decided_by,omitempty"`
	}
	var rows []row
	violations := 0
	discharged := 0
	claimedN := 0
	knownN := 0
	var solverTime float64
	byBackend := map[string]int{}
	var knownLines, violLines []string
	assumed := map[string]bool{}
	notes := map[string]bool{}
	seenKnown := map[string]bool{}
	replayDir := filepath.Join(r.verifDir, "replays", orAll(r.prop))
	for _, it := range r.items {
		key := it.Obl.Func + " :: " + it.Obl.Name
		solverTime += it.Res.Seconds
		st := it.Res.Status
		if it.Res.Conflict != "" {
			st = "solver-conflict"
		}
		rw := row{it.Obl.Func, it.Obl.Name, it.Obl.Class, st, it.Res.Solver, round3(it.Res.Seconds), it.Res.Agree}
		rows = append(rows, rw)
		if k, isKnown := known[key]; isKnown {
			seenKnown[key] = true
			knownN++
			if it.OK {
				knownLines = append(knownLines, fmt.Sprintf("NOTE: known finding no longer fails: property=%s %s", k.Property, key))
			} else {
				knownLines = append(knownLines, fmt.Sprintf("KNOWN-FINDING: property=%s %s — %s", k.Property, key, k.What))
			}
			continue
		}
		claimedN++
		if it.OK {
			discharged++
			byBackend[it.Res.Solver]++
			continue
		}
		violations++
		path, confirmed := r.writeReplay(replayDir, it)
		suffix := ""
		if !confirmed {
			suffix = " no-failing-input-found"
		}
		violLines = append(violLines, fmt.Sprintf("VIOLATION property=%s replay=%s obligation=%q status=%s%s", orAll(r.prop), path, key, st, suffix))
	}
	undecided := 0
	for _, e := range r.engineErrors {
		if strings.Contains(e, "contract error") {
			// the contract cannot be applied to this code (a local it names was renamed, a loop was added or removed, ...):
			// nothing is decided for this function. That is not a failed obligation, so it is not reported as a violation.
			undecided++
			violLines = append(violLines, fmt.Sprintf("UNDECIDED property=%s %s (the contract no longer matches the code of this function; no obligation was generated for it)", orAll(r.prop), e))
			continue
		}
		violations++
		os.MkdirAll(replayDir, 0o755)
		path := filepath.Join(replayDir, "engine-"+sanitize(e)[:min(60, len(sanitize(e)))]+".txt")
		os.WriteFile(path, []byte("obligation generation failed; the proof no longer covers the code that runs\n"+e+"\n"), 0o644)
		violLines = append(violLines, fmt.Sprintf("VIOLATION property=%s replay=%s obligation=%q no-failing-input-found", orAll(r.prop), path, e))
	}
	for _, fi := range r.funcs {
		for a := range fi.enc.assumed {
			assumed[a] = true
		}
		for _, n := range fi.enc.notes {
			notes[n] = true
		}
	}
	for _, l := range knownLines {
		fmt.Println(l)
	}
	for _, l := range violLines {
		fmt.Println(l)
	}
	wall := time.Since(r.start).Seconds()
	fmt.Printf("govc: property=%s tier=%s functions=%d obligations=%d discharged=%d known-findings=%d violations=%d solver_s=%.1f wall_s=%.1f\n",
		orAll(r.prop), r.tier, len(r.funcs), claimedN, discharged, knownN, violations, solverTime, wall)
	// vacuity guard
	infra := false
	if len(r.items) == 0 && len(r.engineErrors) == 0 {
		fmt.Println("govc: INFRASTRUCTURE ERROR: no obligations generated")
		infra = true
	}
	if !noEvidence && r.prop != "" {
		var fnames []map[string]interface{}
		for _, fi := range r.funcs {
			fnames = append(fnames, map[string]interface{}{"func": fi.name, "obligations": fi.n})
		}
		var samples []interface{}
		for i, rw := range rows {
			if i%max(1, len(rows)/12) == 0 {
				samples = append(samples, rw)
			}
		}
		var ass []string
		for a := range assumed {
			ass = append(ass, a)
		}
		for _, a := range r.abstract {
			ass = append(ass, "contract of "+a+" is assumed (abstract), its body is not checked")
		}
		sort.Strings(ass)
		var ns []string
		for n := range notes {
			ns = append(ns, n)
		}
		sort.Strings(ns)
		var kl []string
		for _, l := range knownLines {
			kl = append(kl, l)
		}
		ev := map[string]interface{}{
			"property_id": r.prop,
			"tier":        r.tier,
			"seed":        r.seed,
			"level":       "proof",
			"coverage": map[string]interface{}{
				"obligations":     claimedN,
				"discharged":      discharged,
				"checker_cmd":     strings.Join(os.Args, " "),
				"trusted_base":    trustedBase(),
				"functions":       fnames,
				"by_backend":      byBackend,
				"solver_time_s":   round3(solverTime),
				"known_findings":  kl,
				"known_finding_obligations": knownN,
				"all_obligations": rows,
				"samples":         samples,
				"abstractions":    ns,
				"integers":        "mathematical Int with exact two's-complement wrap on every sized conversion and on arithmetic of types narrower than 64 bits; 64-bit arithmetic mathematical (overflow obligations where 'check overflow' is claimed)",
				"contract_source": r.p.contractSource,
			},
			"assumptions": ass,
			"wall_s":      round3(wall),
			"violations":  violations,
		}
		data, _ := json.MarshalIndent(ev, "", " ")
		os.MkdirAll(filepath.Join(r.verifDir, "evidence"), 0o755)
		if err := os.WriteFile(filepath.Join(r.verifDir, "evidence", r.prop+".json"), data, 0o644); err != nil {
			fmt.Fprintln(os.Stderr, "govc: cannot write evidence:", err)
			return 2
		}
	}
	if violations > 0 {
		return 1
	}
	if infra || undecided > 0 {
		return 2
	}
	return 0
}


func orAll(s string) string {
	if s == "" {
		return "ALL"
	}
	return s
}

func round3(f float64) float64 { return float64(int(f*1000+0.5)) / 1000 }

func trustedBase() []string {
	return []string{
		"go/packages, go/types, go/ssa (x/tools v0.29.0) as a faithful IR of the source",
		"govc VC generator (this repository, /verif/govc)",
		"SMT solvers z3 5.1.0 (z3-new), z3 4.8.12, cvc5 1.0.3",
		"assumed contracts of external functions (fmt, errors, strconv, strings, bytes, sort, time, reflect, sync, io)",
		"user callbacks (resolvers, subscribers, custom scalars) meet their interface contracts and do not write ggql-owned memory",
	}
}

func (r *Run) writeReplay(dir string, it *OblResult) (string, bool) {
	os.MkdirAll(dir, 0o755)
	base := sanitize(it.Obl.Func + "__" + it.Obl.Name)
	if len(base) > 120 {
		base = base[:120]
	}
	path := filepath.Join(dir, base+".json")
	sub := *it.Obl
	if it.Res.FailedConjunct != "" {
		sub.Cond = T{it.Res.FailedConjunct, SBool}
		sub.Subs = nil
		if it.Res.FailedPath != "" {
			sub.Path = T{it.Res.FailedPath, SBool}
		}
	}
	q := it.Enc.Query(&sub)
	qpath := filepath.Join(dir, base+".smt2")
	os.WriteFile(qpath, []byte("(set-logic ALL)\n"+q), 0o644)
	rep := map[string]interface{}{
		"property":   r.prop,
		"func":       it.Obl.Func,
		"obligation": it.Obl.Name,
		"class":      it.Obl.Class,
		"position":   it.Obl.Pos,
		"status":     it.Res.Status,
		"solver":     it.Res.Solver,
		"solver_output": firstN(it.Res.Output, 4000),
		"model":      firstN(it.Res.Model, 20000),
		"query":      qpath,
		"conflict":   it.Res.Conflict,
		"failed_conjunct": firstN(it.Res.FailedConjunct, 3000),
	}
	confirmed := false
	if out, ok := r.replay(it, dir, base); ok {
		rep["replay_input"] = out.Input
		rep["replay_output"] = out.Output
		rep["replay_test"] = out.TestFile
		rep["replay_confirmed"] = out.Confirmed
		confirmed = out.Confirmed
	} else {
		rep["replay"] = "no concrete input could be built from the solver answer for this obligation family"
	}
	data, _ := json.MarshalIndent(rep, "", " ")
	os.WriteFile(path, data, 0o644)
	return path, confirmed
}

func firstN(s string, n int) string {
	if len(s) > n {
		return s[:n] + "…"
	}
	return s
}
