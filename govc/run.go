package main

import (
	"fmt"
	"go/token"
	"go/types"
	"sort"
	"strings"

	"golang.org/x/tools/go/ssa"
)

func newFrame(enc *Enc, p *Program, fn *ssa.Function, pfx string, top bool) *Frame {
	f := &Frame{enc: enc, p: p, fn: fn, fname: p.fname(fn), pfx: pfx, top: top,
		vals: map[ssa.Value]T{}, tuples: map[ssa.Value][]T{}, structs: map[ssa.Value][]structLeaf{}, lvs: map[ssa.Value]*LV{},
		outSt: map[*ssa.BasicBlock]State{}, outPath: map[*ssa.BasicBlock]T{}, edgePred: map[[2]int]T{},
		params: map[string]T{}, paramTy: map[string]types.Type{}, iters: map[ssa.Value]*iterInfo{}, held: map[string]bool{}}
	f.con = p.contracts[f.fname]
	return f
}

// run encodes the body. Returns merged results, exit state and exit path.
func (f *Frame) run(args []T, st State, path T) (results []T, outSt State, outPath T, ok bool) {
	fn := f.fn
	if fn.Blocks == nil {
		return nil, nil, T{}, false
	}
	if len(args) != len(fn.Params) {
		panic(fmt.Sprintf("%s: arg count %d != %d", f.fname, len(args), len(fn.Params)))
	}
	for i, prm := range fn.Params {
		f.vals[prm] = args[i]
		f.params[prm.Name()] = args[i]
		f.paramTy[prm.Name()] = prm.Type()
		if i == 0 && fn.Signature.Recv() != nil {
			f.params["recv"] = args[i]
			f.paramTy["recv"] = prm.Type()
		}
	}
	for _, fv := range fn.FreeVars {
		if bv, ok := f.freeBind[fv]; ok && f.freeFrom != nil {
			// the captured variable is the caller's value (a pointer to the shared cell, or a plain value)
			f.vals[fv] = f.freeFrom.val(bv)
			if lv, ok := f.freeFrom.lvs[bv]; ok {
				f.lvs[fv] = lv
			}
			if st, ok := f.freeFrom.structs[bv]; ok {
				f.structs[fv] = st
			}
			continue
		}
		f.freshVal(fv)
		f.enc.note("%s: free variable %s unconstrained", f.fname, fv.Name())
	}
	f.entrySt = st.clone()
	f.st = st.clone()
	f.path = path
	f.collectNames()
	f.findLoops()
	sig := fn.Signature
	f.resultNames = resultNames(f.con, sig)
	for i := 0; i < sig.Results().Len(); i++ {
		f.resultTypes = append(f.resultTypes, sig.Results().At(i).Type())
	}
	for _, b := range f.rpo() {
		if !f.enterBlock(b) {
			continue
		}
		for _, in := range b.Instrs {
			f.instr(in)
		}
		last := b.Instrs[len(b.Instrs)-1]
		if ret, isRet := last.(*ssa.Return); isRet {
			if f.top && f.trivialReturnBlock(b) && len(b.Preds) > 1 {
				// one return record per incoming edge: the postcondition is proved per path,
				// without the merged (ite) state of the join
				for i, p := range b.Preds {
					ep, ok := f.edgePred[[2]int{p.Index, b.Index}]
					if !ok {
						continue
					}
					var rs []T
					for _, r := range ret.Results {
						if phi, isPhi := r.(*ssa.Phi); isPhi && phi.Block() == b {
							rs = append(rs, f.val(phi.Edges[i]))
						} else {
							rs = append(rs, f.val(r))
						}
					}
					var vs []ssa.Value
					for _, r := range ret.Results {
						if phi, isPhi := r.(*ssa.Phi); isPhi && phi.Block() == b {
							vs = append(vs, phi.Edges[i])
						} else {
							vs = append(vs, r)
						}
					}
					f.rets = append(f.rets, retRec{path: ep, st: f.outSt[p], results: rs, pos: ret.Pos(), vals: vs})
				}
				continue
			}
			var rs []T
			for _, r := range ret.Results {
				rs = append(rs, f.val(r))
			}
			f.rets = append(f.rets, retRec{path: f.curPath(), st: f.st, results: rs, pos: ret.Pos(), vals: ret.Results})
			continue
		}
		if _, isPanic := last.(*ssa.Panic); isPanic {
			continue
		}
		f.finishBlock(b)
	}
	if len(f.rets) == 0 {
		// never returns normally
		return nil, f.st, False, true
	}
	// merge returns
	var paths []T
	for _, r := range f.rets {
		paths = append(paths, r.path)
	}
	outPath = f.enc.definePath(f.sym("EXIT"), Or(paths...))
	n := len(f.rets[0].results)
	results = make([]T, n)
	for i := 0; i < n; i++ {
		acc := f.rets[len(f.rets)-1].results[i]
		for k := len(f.rets) - 2; k >= 0; k-- {
			acc = Ite(f.rets[k].path, f.rets[k].results[i], acc)
		}
		results[i] = f.enc.define(f.sym(fmt.Sprintf("RES%d", i)), acc)
		f.typeFacts(results[i], f.resultTypes[i])
	}
	keys := map[string]bool{}
	for _, r := range f.rets {
		for k := range r.st {
			keys[k] = true
		}
	}
	outSt = State{}
	for _, k := range sortedKeys(keys) {
		acc := stLookup(f.enc, f.rets[len(f.rets)-1].st, k)
		same := true
		for j := len(f.rets) - 2; j >= 0; j-- {
			t := stLookup(f.enc, f.rets[j].st, k)
			if t.S != acc.S {
				same = false
			}
			acc = Ite(f.rets[j].path, t, acc)
		}
		if same {
			outSt[k] = stLookup(f.enc, f.rets[0].st, k)
		} else {
			outSt[k] = f.enc.define(k+"@x", acc)
		}
	}
	return results, outSt, outPath, true
}

// verifyFunction: top-level encoding of one function under contract; returns its Enc with obligations.
func (p *Program) verifyFunction(name string) (enc *Enc, err error) {
	fn, ok := p.funcs[name]
	if !ok {
		return nil, fmt.Errorf("contract-target-missing: %s", name)
	}
	con := p.contracts[name]
	enc = newEnc(p)
	defer func() {
		if r := recover(); r != nil {
			if te, ok := r.(trErr); ok {
				err = fmt.Errorf("%s: contract error: %s", name, te.msg)
				return
			}
			panic(r)
		}
	}()
	f := newFrame(enc, p, fn, "", true)
	var args []T
	for _, prm := range fn.Params {
		s := p.sortOf(prm.Type())
		enc.declSortOf(s)
		a := enc.declConst("p_"+prm.Name(), s)
		f.typeFacts(a, prm.Type())
		args = append(args, a)
	}
	enc.stateSort["alloc"] = SInt
	alloc0 := enc.declConst("alloc@0", SInt)
	enc.factAbout(alloc0, Le(Zero, alloc0))
	var entry []T
	for i, prm := range fn.Params {
		switch prm.Type().Underlying().(type) {
		case *types.Pointer, *types.Map:
			entry = append(entry, Le(args[i], alloc0))
		case *types.Slice:
			entry = append(entry, Le(SPtr(args[i]), alloc0))
		case *types.Interface:
			entry = append(entry, Implies(App(SBool, "ptrlike", App(SInt, "tag", args[i])), And(Le(Zero, App(SInt, "pl_Int", args[i])), Le(App(SInt, "pl_Int", args[i]), alloc0))))
			entry = append(entry, Implies(App(SBool, "slicelike", App(SInt, "tag", args[i])), Le(SPtr(App(SSlice, "pl_Slice", args[i])), alloc0)))
		}
	}
	// requires
	f.fn = fn
	f.entrySt = State{}
	f.st = State{}
	for i, prm := range fn.Params {
		f.params[prm.Name()] = args[i]
		f.paramTy[prm.Name()] = prm.Type()
		if i == 0 && fn.Signature.Recv() != nil {
			f.params["recv"] = args[i]
			f.paramTy["recv"] = prm.Type()
		}
	}
	if con != nil {
		for _, r := range con.Requires {
			tr := &Translator{f: f, cur: f.st, old: f.st, allocOld: alloc0}
			entry = append(entry, tr.boolExpr(r.Expr))
		}
	}
	if con != nil {
		tr := &Translator{f: f, cur: f.st, old: f.st, allocOld: alloc0}
		for _, u := range con.Uses {
			func() {
				defer func() {
					if r := recover(); r != nil {
						if _, ok := r.(trErr); !ok {
							panic(r)
						}
					}
				}()
				enc.extras = append(enc.extras, tr.useInstance(u)...)
			}()
		}
	}
	if con != nil && len(con.Decreases) > 0 {
		for _, d := range con.Decreases {
			tr := &Translator{f: f, cur: f.st, old: f.st, allocOld: alloc0}
			f.recMeasure = append(f.recMeasure, tr.expr(d.Expr).t)
		}
	}
	if con != nil && con.HasAssigns {
		if _, ok := con.Checks["frame"]; ok {
			locs, _, aerr := p.assignLocs(con, fn.Signature)
			if aerr != nil {
				return nil, fmt.Errorf("%s: contract error: %v", name, aerr)
			}
			f.installFrameChecks(locs, alloc0)
		}
	}
	pathIn := enc.definePath("ENTRY", And(entry...))
	enc.obls = append(enc.obls, &Obl{Name: "cover:entry", Class: "cover", Func: name, Path: pathIn, Cond: True, Cover: true, Pos: p.pos(fn.Pos())})
	results, outSt, outPath, ok := f.run(args, State{}, pathIn)
	if !ok {
		return nil, fmt.Errorf("%s: no body", name)
	}
	if con != nil && outPath.S != "false" {
		env := map[string]tv{}
		for i, r := range results {
			env[f.resultNames[i]] = tv{r, f.resultTypes[i]}
		}
		f.cur = nil
		f.path = outPath
		f.pathAcc = nil
		f.st = outSt
		// ghost effects declared by the contract are not re-derived here (ghost counters move only at calls)
		for k, e := range con.Ensures {
			// one sub-goal per return statement: no merged (ite) exit state in the proof
			o := &Obl{Name: "post:" + clauseName(e, k), Class: "post", Func: name, Path: outPath, Cond: True, Pos: p.pos(fn.Pos()), Props: e.Props}
			for _, r := range f.rets {
				renv := map[string]tv{}
				for i, rv := range r.results {
					renv[f.resultNames[i]] = tv{rv, f.resultTypes[i]}
				}
				tr := &Translator{f: f, env: renv, cur: r.st, old: f.entrySt, allocOld: alloc0}
				c := tr.boolExpr(e.Expr)
				sg := SubGoal{Path: r.path, Cond: c}
				// slice results assembled along several control-flow paths (phi / append chains): one sub-goal per
				// path, plus one showing that the paths cover the return (so the split is sound by construction)
				for _, v := range r.vals {
					if _, isSl := v.Type().Underlying().(*types.Slice); isSl {
						if sp := f.splitPaths(v, 0); len(sp) > 1 && len(sp) <= 24 {
							sg.Splits = sp
							break
						}
					}
				}
				sg.Extra = append(sg.Extra, enc.extras...)
				for _, u := range con.Uses {
					func() {
						defer func() {
							if r := recover(); r != nil {
								if _, ok := r.(trErr); !ok {
									panic(r)
								}
							}
						}()
						sg.Extra = append(sg.Extra, tr.useInstance(u)...)
					}()
				}
				o.Subs = append(o.Subs, sg)
			}
			enc.obls = append(enc.obls, o)
		}
		p.refineObligations(f, enc, con, fn, name, args, outPath, alloc0)
		if _, ok := con.Checks["lock"]; ok {
			// every mutex acquired by the function is released on every return path (and none it did not hold is released)
			if hs, ok := enc.stateSort["held"]; ok {
				entryHeld := stLookup(enc, f.entrySt, "held")
				o := &Obl{Name: "lock:released-at-return", Class: "lock", Func: name, Path: outPath, Cond: True, Pos: p.pos(fn.Pos())}
				for _, r := range f.rets {
					now := stLookup(enc, r.st, "held")
					_ = hs
					o.Subs = append(o.Subs, SubGoal{Path: r.path, Cond: Eq(now, entryHeld)})
				}
				enc.obls = append(enc.obls, o)
			}
		}
		enc.obls = append(enc.obls, &Obl{Name: "cover:exit", Class: "cover", Func: name, Path: outPath, Cond: True, Cover: true, Pos: p.pos(fn.Pos())})
	}
	return enc, nil
}

var _ = token.NoPos

// refineObligations: a method under contract whose receiver type implements an in-package interface that has a contract
// for the same method is checked against that interface contract, the one its dynamic callers assume: one `refine`
// obligation per interface postcondition (the interface's names for receiver, parameters and results bound by position),
// and one for the frame: the locations the method's own `assigns` lists are among those the interface's lists.
// Not covered (listed as assumptions): the method's own preconditions at dynamic calls, ghost updates.
func (p *Program) refineObligations(f *Frame, enc *Enc, con *Contract, fn *ssa.Function, name string, args []T, outPath T, alloc0 T) {
	if fn.Signature.Recv() == nil {
		return
	}
	recvT := fn.Signature.Recv().Type()
	scope := p.pkg.Types.Scope()
	names := scope.Names()
	for _, in := range names {
		tn, ok := scope.Lookup(in).(*types.TypeName)
		if !ok {
			continue
		}
		iface, ok := tn.Type().Underlying().(*types.Interface)
		if !ok || !types.Implements(recvT, iface) {
			continue
		}
		key := p.ifaceMethodKey(tn.Type(), fn.Name())
		icon := p.ifaceCons[key]
		if icon == nil || icon.Pure {
			continue
		}
		var im *types.Func
		for i := 0; i < iface.NumMethods(); i++ {
			if iface.Method(i).Name() == fn.Name() {
				im = iface.Method(i)
			}
		}
		if im == nil {
			continue
		}
		isig := im.Type().(*types.Signature)
		boxed := f.box(recvT, args[0])
		base := map[string]tv{"recv": {boxed, tn.Type()}, "self": {boxed, tn.Type()}}
		for i := 0; i < isig.Params().Len() && 1+i < len(args); i++ {
			if n := isig.Params().At(i).Name(); n != "" && n != "_" {
				base[n] = tv{args[1+i], fn.Params[1+i].Type()}
			}
		}
		rn := resultNames(icon, isig)
		enc.assumed["refinement of "+key+": the postconditions and the frame of the interface contract are checked for "+name+"; its own preconditions are assumed to hold at dynamic calls (the interface contract does not state them)"] = true
		// "trust refine:Iface.Method[.label] reason": this part of the interface contract is not established for this
		// implementation; it stays an assumption (reported with the other trust lines of the evidence)
		trusted := func(nm string) bool {
			for _, t := range con.Trust {
				if fs := strings.Fields(t); len(fs) > 0 && strings.HasPrefix(fs[0], "refine:") && (fs[0] == nm || strings.HasPrefix(nm, fs[0]+".")) {
					return true
				}
			}
			return false
		}
		for k, e := range icon.Ensures {
			if trusted("refine:" + key + "." + clauseName(e, k)) {
				continue
			}
			props := e.Props
			o := &Obl{Name: "refine:" + key + "." + clauseName(e, k), Class: "refine", Func: name, Path: outPath, Cond: True, Pos: p.pos(fn.Pos()), Props: props}
			for _, r := range f.rets {
				renv := map[string]tv{}
				for n, v := range base {
					renv[n] = v
				}
				for i, rv := range r.results {
					if i < len(rn) {
						renv[rn[i]] = tv{rv, f.resultTypes[i]}
					}
				}
				tr := &Translator{f: f, env: renv, cur: r.st, old: f.entrySt, allocOld: alloc0}
				sg := SubGoal{Path: r.path, Cond: tr.boolExpr(e.Expr)}
				sg.Extra = append(sg.Extra, enc.extras...)
				for _, u := range con.Uses {
					func() {
						defer func() {
							if r := recover(); r != nil {
								if _, ok := r.(trErr); !ok {
									panic(r)
								}
							}
						}()
						tru := &Translator{f: f, env: map[string]tv{}, cur: r.st, old: f.entrySt, allocOld: alloc0}
						for i, rv := range r.results {
							tru.env[f.resultNames[i]] = tv{rv, f.resultTypes[i]}
						}
						sg.Extra = append(sg.Extra, tru.useInstance(u)...)
					}()
				}
				o.Subs = append(o.Subs, sg)
			}
			enc.obls = append(enc.obls, o)
		}
		if icon.HasAssigns && con.HasAssigns && !trusted("refine:"+key+".assigns") {
			canon := func(list []string, pn map[string]string) map[string]bool {
				out := map[string]bool{}
				for _, a := range list {
					a = strings.TrimSpace(a)
					head, rest := a, ""
					for i, c := range a {
						if !(c == '_' || c >= 'a' && c <= 'z' || c >= 'A' && c <= 'Z' || c >= '0' && c <= '9') {
							head, rest = a[:i], a[i:]
							break
						}
					}
					if q, ok := pn[head]; ok {
						head = q
					}
					out[head+rest] = true
				}
				return out
			}
			ipn := map[string]string{"recv": "$r", "self": "$r"}
			for i := 0; i < isig.Params().Len(); i++ {
				ipn[isig.Params().At(i).Name()] = fmt.Sprintf("$%d", i)
			}
			mpn := map[string]string{"recv": "$r", "self": "$r"}
			for i, prm := range fn.Params {
				if i == 0 {
					mpn[prm.Name()] = "$r"
				} else {
					mpn[prm.Name()] = fmt.Sprintf("$%d", i-1)
				}
			}
			allowed := canon(icon.Assigns, ipn)
			var extra []string
			for a := range canon(con.Assigns, mpn) {
				if !allowed[a] {
					extra = append(extra, a)
				}
			}
			sort.Strings(extra)
			cond := True
			nm := "refine:" + key + ".assigns"
			if len(extra) > 0 {
				cond = False
				nm += "(" + strings.Join(extra, ",") + ")"
			}
			enc.obls = append(enc.obls, &Obl{Name: nm, Class: "refine", Func: name, Path: outPath, Cond: cond, Pos: p.pos(fn.Pos())})
		}
	}
}

// verifyLemma: a lemma is a closed statement over spec functions and an arbitrary heap state; it is
// proved once, in isolation, for arbitrary parameter values.
func (p *Program) verifyLemma(name string) (enc *Enc, err error) {
	lm := p.lemmas[name]
	enc = newEnc(p)
	enc.lemmaMode = true
	defer func() {
		if r := recover(); r != nil {
			if te, ok := r.(trErr); ok {
				err = fmt.Errorf("lemma %s: %s", name, te.msg)
				return
			}
			panic(r)
		}
	}()
	// a dummy frame to host the translator
	var anyFn *ssa.Function
	for _, fn := range p.funcs {
		anyFn = fn
		break
	}
	f := newFrame(enc, p, anyFn, "", true)
	f.fname = "lemma " + name
	f.entrySt, f.st = State{}, State{}
	enc.stateSort["alloc"] = SInt
	alloc0 := enc.declConst("alloc@0", SInt)
	enc.factAbout(alloc0, Le(Zero, alloc0))
	tr := &Translator{f: f, cur: f.st, old: f.st, allocOld: alloc0, bound: map[string]tv{}}
	for _, prm := range lm.Params {
		ty := tr.goType(prm.Type)
		s := p.sortOf(ty)
		enc.declSortOf(s)
		c := enc.declConst("l_"+prm.Name, s)
		f.typeFacts(c, ty)
		tr.bound[prm.Name] = tv{c, ty}
	}
	body := tr.boolExpr(lm.Body)
	enc.obls = append(enc.obls, &Obl{Name: "lemma:" + name, Class: "lemma", Func: "lemma " + name, Path: True, Cond: body, Pos: fmt.Sprintf("contracts:%d", lm.Line)})
	return enc, nil
}

// splitPaths: the alternative control-flow histories through which slice value v was assembled (non-loop phis,
// followed through the accumulator argument of append). Each alternative is a conjunction of edge predicates.
func (f *Frame) splitPaths(v ssa.Value, depth int) [][]T {
	if depth > 4 {
		return [][]T{nil}
	}
	switch x := v.(type) {
	case *ssa.Phi:
		if f.loops[x.Block()] != nil {
			return [][]T{nil}
		}
		var out [][]T
		for i, p := range x.Block().Preds {
			ep, ok := f.edgePred[[2]int{p.Index, x.Block().Index}]
			if !ok {
				continue
			}
			for _, sub := range f.splitPaths(x.Edges[i], depth+1) {
				out = append(out, append([]T{ep}, sub...))
			}
		}
		if len(out) == 0 {
			return [][]T{nil}
		}
		return out
	case *ssa.Call:
		if b, ok := x.Call.Value.(*ssa.Builtin); ok && b.Name() == "append" {
			return f.splitPaths(x.Call.Args[0], depth+1)
		}
		// a call that extends a slice of the same type passed to it (e.g. addError(…, ea, err) []error)
		if _, isFn := x.Call.Value.(*ssa.Function); isFn {
			for _, a := range x.Call.Args {
				if types.Identical(a.Type(), x.Type()) {
					return f.splitPaths(a, depth+1)
				}
			}
		}
	}
	return [][]T{nil}
}

// trivialReturnBlock: only phis / debug references before the return.
func (f *Frame) trivialReturnBlock(b *ssa.BasicBlock) bool {
	for _, in := range b.Instrs[:len(b.Instrs)-1] {
		switch in.(type) {
		case *ssa.Phi, *ssa.DebugRef:
		default:
			return false
		}
	}
	seen := map[*ssa.BasicBlock]bool{}
	for _, p := range b.Preds {
		if seen[p] {
			return false // duplicate predecessor edges: keep the merged form
		}
		seen[p] = true
	}
	return true
}
