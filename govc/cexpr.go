package main

// Contract expression language: lexer + Pratt parser.
//
//   e ::= lit | ident | #ghost | e.f | e[i] | f(args) | old(e) | !e | -e
//       | e op e   (op: ==> <==> || && == != < <= > >= + - * / %)
//       | forall x T, y T :: e | exists x T :: e
//       | is(e, GoType) | as(e, GoType)
// Type arguments of is/as/forall are raw Go type text resolved in the package scope.

import (
	"fmt"
	"strings"
	"unicode"
)

type Expr interface{}

type (
	EIdent  struct{ Name string }
	EGhost  struct{ Name string }
	EInt    struct{ Val string }
	EStr    struct{ Val string }
	EBool   struct{ Val bool }
	ENil    struct{}
	EUnary  struct {
		Op string
		X  Expr
	}
	EBinary struct {
		Op   string
		X, Y Expr
	}
	ECall struct {
		Fn   string
		Args []Expr
		Raw  []string // raw text of args (for type arguments)
	}
	ESel struct {
		X Expr
		F string
	}
	EIndex struct {
		X, I Expr
	}
	EQuant struct {
		Forall   bool
		Vars     []QVar
		Body     Expr
		Patterns [][]Expr // optional triggers: {a, b} {c}
		Split    Expr     // optional proof hint: case split of the bound variable range
	}
	ESlice struct {
		X      Expr
		Lo, Hi Expr
	}
)

type QVar struct {
	Name string
	Type string
}

type tok struct {
	kind string // id, int, str, op, eof
	s    string
	pos  int
}

type lexer struct {
	src  string
	toks []tok
	i    int
}

func lex(src string) ([]tok, error) {
	var toks []tok
	i := 0
	n := len(src)
	for i < n {
		c := src[i]
		switch {
		case c == ' ' || c == '\t' || c == '\n':
			i++
		case unicode.IsLetter(rune(c)) || c == '_':
			j := i
			for j < n && (unicode.IsLetter(rune(src[j])) || unicode.IsDigit(rune(src[j])) || src[j] == '_') {
				j++
			}
			toks = append(toks, tok{"id", src[i:j], i})
			i = j
		case c == '#':
			j := i + 1
			for j < n && (unicode.IsLetter(rune(src[j])) || unicode.IsDigit(rune(src[j])) || src[j] == '_') {
				j++
			}
			toks = append(toks, tok{"ghost", src[i:j], i})
			i = j
		case c >= '0' && c <= '9':
			j := i
			for j < n && (src[j] >= '0' && src[j] <= '9' || src[j] == 'x' || src[j] >= 'a' && src[j] <= 'f' || src[j] >= 'A' && src[j] <= 'F') {
				j++
			}
			toks = append(toks, tok{"int", src[i:j], i})
			i = j
		case c == '"':
			j := i + 1
			for j < n && src[j] != '"' {
				if src[j] == '\\' {
					j++
				}
				j++
			}
			if j >= n {
				return nil, fmt.Errorf("unterminated string at %d", i)
			}
			toks = append(toks, tok{"str", src[i+1 : j], i})
			i = j + 1
		case c == '\'':
			// rune literal -> int
			j := i + 1
			for j < n && src[j] != '\'' {
				if src[j] == '\\' {
					j++
				}
				j++
			}
			lit := src[i+1 : j]
			var v int
			switch lit {
			case "\\n":
				v = '\n'
			case "\\r":
				v = '\r'
			case "\\t":
				v = '\t'
			case "\\\\":
				v = '\\'
			case "\\'":
				v = '\''
			case "\\b":
				v = '\b'
			case "\\f":
				v = '\f'
			default:
				r := []rune(lit)
				if len(r) != 1 {
					return nil, fmt.Errorf("bad rune literal %q", lit)
				}
				v = int(r[0])
			}
			toks = append(toks, tok{"int", fmt.Sprint(v), i})
			i = j + 1
		default:
			ops := []string{"<==>", "==>", "::", "||", "&&", "==", "!=", "<=", ">=", "<", ">", "+", "-", "*", "/", "%", "!", "(", ")", "[", "]", ".", ",", ":", "{", "}"}
			matched := false
			for _, op := range ops {
				if strings.HasPrefix(src[i:], op) {
					toks = append(toks, tok{"op", op, i})
					i += len(op)
					matched = true
					break
				}
			}
			if !matched {
				return nil, fmt.Errorf("unexpected character %q at %d in %q", c, i, src)
			}
		}
	}
	toks = append(toks, tok{"eof", "", n})
	return toks, nil
}

type parser struct {
	src  string
	toks []tok
	i    int
}

func parseExpr(src string) (e Expr, err error) {
	toks, err := lex(src)
	if err != nil {
		return nil, err
	}
	p := &parser{src: src, toks: toks}
	defer func() {
		if r := recover(); r != nil {
			if pe, ok := r.(parseErr); ok {
				err = fmt.Errorf("%s in %q", string(pe), src)
				return
			}
			panic(r)
		}
	}()
	e = p.expr(0)
	if p.peek().kind != "eof" {
		p.fail("trailing input %q", p.peek().s)
	}
	return e, nil
}

type parseErr string

func (p *parser) fail(format string, args ...interface{}) {
	panic(parseErr(fmt.Sprintf(format, args...)))
}
func (p *parser) peek() tok { return p.toks[p.i] }
func (p *parser) next() tok { t := p.toks[p.i]; p.i++; return t }
func (p *parser) isOp(s string) bool {
	t := p.peek()
	return t.kind == "op" && t.s == s
}
func (p *parser) expect(s string) {
	if !p.isOp(s) {
		p.fail("expected %q, got %q", s, p.peek().s)
	}
	p.next()
}

var binPrec = map[string]int{
	"<==>": 1, "==>": 2, "||": 3, "&&": 4,
	"==": 5, "!=": 5, "<": 5, "<=": 5, ">": 5, ">=": 5,
	"+": 6, "-": 6, "*": 7, "/": 7, "%": 7,
}

func (p *parser) expr(minPrec int) Expr {
	lhs := p.unary()
	for {
		t := p.peek()
		if t.kind != "op" {
			return lhs
		}
		prec, ok := binPrec[t.s]
		if !ok || prec < minPrec {
			return lhs
		}
		p.next()
		var rhs Expr
		if t.s == "==>" { // right assoc
			rhs = p.expr(prec)
		} else {
			rhs = p.expr(prec + 1)
		}
		lhs = &EBinary{t.s, lhs, rhs}
	}
}

func (p *parser) unary() Expr {
	t := p.peek()
	if t.kind == "op" && (t.s == "!" || t.s == "-") {
		p.next()
		return &EUnary{t.s, p.unary()}
	}
	return p.postfix(p.primary())
}

func (p *parser) postfix(e Expr) Expr {
	for {
		switch {
		case p.isOp("."):
			p.next()
			t := p.next()
			if t.kind != "id" {
				p.fail("expected field name after '.'")
			}
			if p.isOp("(") {
				p.next()
				c := &ECall{Fn: "." + t.s, Args: []Expr{e}}
				for !p.isOp(")") {
					c.Args = append(c.Args, p.expr(0))
					if p.isOp(",") {
						p.next()
					} else {
						break
					}
				}
				p.expect(")")
				e = c
			} else {
				e = &ESel{e, t.s}
			}
		case p.isOp("["):
			p.next()
			var lo Expr
			if !p.isOp(":") {
				lo = p.expr(0)
			}
			if p.isOp(":") {
				p.next()
				var hi Expr
				if !p.isOp("]") {
					hi = p.expr(0)
				}
				p.expect("]")
				e = &ESlice{e, lo, hi}
			} else {
				p.expect("]")
				e = &EIndex{e, lo}
			}
		default:
			return e
		}
	}
}

// rawUntil collects raw source text of one argument (balanced) up to ',' or ')'.
func (p *parser) rawArg() string {
	start := p.peek().pos
	depth := 0
	for {
		t := p.peek()
		if t.kind == "eof" {
			p.fail("unterminated argument list")
		}
		if t.kind == "op" {
			switch t.s {
			case "(", "[", "{":
				depth++
			case ")", "]", "}":
				if depth == 0 {
					return strings.TrimSpace(p.src[start:t.pos])
				}
				depth--
			case ",":
				if depth == 0 {
					return strings.TrimSpace(p.src[start:t.pos])
				}
			}
		}
		p.next()
	}
}

func (p *parser) primary() Expr {
	t := p.next()
	switch t.kind {
	case "int":
		return &EInt{t.s}
	case "str":
		return &EStr{t.s}
	case "ghost":
		return &EGhost{t.s}
	case "op":
		if t.s == "(" {
			e := p.expr(0)
			p.expect(")")
			return e
		}
		p.fail("unexpected %q", t.s)
	case "id":
		switch t.s {
		case "true":
			return &EBool{true}
		case "false":
			return &EBool{false}
		case "nil":
			return &ENil{}
		case "forall", "exists":
			q := &EQuant{Forall: t.s == "forall"}
			for {
				nm := p.next()
				if nm.kind != "id" {
					p.fail("expected bound variable name")
				}
				// type text up to ',' or '::'
				start := p.peek().pos
				depth := 0
				for {
					tt := p.peek()
					if tt.kind == "eof" {
						p.fail("unterminated quantifier")
					}
					if tt.kind == "op" && (tt.s == "(" || tt.s == "[") {
						depth++
					}
					if tt.kind == "op" && (tt.s == ")" || tt.s == "]") {
						depth--
					}
					if depth == 0 && tt.kind == "op" && (tt.s == "," || tt.s == "::" || tt.s == "{") {
						break
					}
					p.next()
				}
				ty := strings.TrimSpace(p.src[start:p.peek().pos])
				q.Vars = append(q.Vars, QVar{nm.s, ty})
				if p.isOp(",") {
					p.next()
					continue
				}
				for p.isOp("{") {
					p.next()
					var grp []Expr
					for !p.isOp("}") {
						grp = append(grp, p.expr(0))
						if p.isOp(",") {
							p.next()
						}
					}
					p.expect("}")
					q.Patterns = append(q.Patterns, grp)
				}
				if t := p.peek(); t.kind == "id" && t.s == "split" {
					p.next()
					q.Split = p.expr(0)
				}
				p.expect("::")
				break
			}
			q.Body = p.expr(0)
			return q
		}
		if p.isOp("(") {
			p.next()
			c := &ECall{Fn: t.s}
			if t.s == "is" || t.s == "as" || t.s == "tagof" || t.s == "zero" {
				// first arg expression (except tagof/zero: only a type), then a raw type
				if t.s == "is" || t.s == "as" {
					c.Args = append(c.Args, p.expr(0))
					p.expect(",")
				}
				c.Raw = append(c.Raw, p.rawArg())
				p.expect(")")
				return c
			}
			for !p.isOp(")") {
				c.Args = append(c.Args, p.expr(0))
				if p.isOp(",") {
					p.next()
				} else {
					break
				}
			}
			p.expect(")")
			return c
		}
		return &EIdent{t.s}
	}
	p.fail("unexpected token %q", t.s)
	return nil
}
