package main

import (
	"flag"
	"fmt"
	"go/types"
	"os"
	"path/filepath"
	"sort"
	"strings"
	"sync"
	"time"

	"golang.org/x/tools/go/ssa"
)

type OblResult struct {
	Obl *Obl
	Res SolveResult
	Enc *Enc
	OK  bool
}

func main() {
	repo := flag.String("repo", "/repo", "repository root")
	prop := flag.String("prop", "", "property id (C01..C20); empty = all obligations")
	tier := flag.String("tier", "quick", "quick or thorough")
	interf := flag.Bool("interference", false, "read critical sections concurrently: havoc guarded state at Lock, assume/assert lock invariants (implied by -prop C20)")
	fnFilter := flag.String("func", "", "only this function (debug)")
	oblFilter := flag.String("obl", "", "only obligations whose name contains this (debug)")
	dump := flag.String("dump", "", "directory to keep SMT queries (debug)")
	verifDir := flag.String("verif", "/verif", "verif directory")
	seed := flag.Int("seed", 0, "solver seed")
	list := flag.Bool("list", false, "list obligations only")
	noEvidence := flag.Bool("no-evidence", false, "do not write the evidence file")
	verbose := flag.Bool("v", false, "print obligations that took more than a second")
	showLoops := flag.String("loops", "", "print the loop ordinals of a function and exit")
	dumpFn := flag.String("dumpfn", "", "print the SSA of a function (as loaded by govc) and exit")
	cfiles := flag.String("cfiles", "", "comma-separated base names of contract files to load (default: all)")
	devContracts := flag.Bool("dev", false, "use /verif/contracts/verif_contracts.go even if the repo has its own copy (development)")
	flag.Parse()
	// C20 is about the registry under concurrency: its run reads critical sections concurrently (see acquireHavoc)
	interferenceMode = *interf || *prop == "C20"
	if s := os.Getenv("VERIF_SEED"); s != "" && *seed == 0 {
		fmt.Sscan(s, seed)
	}
	start := time.Now()
	p, err := loadProgram(*repo, filepath.Join(*verifDir, "contracts/verif_contracts.go"), *devContracts)
	if err != nil {
		fmt.Fprintln(os.Stderr, "govc: load error:", err)
		os.Exit(2)
	}
	p.registerTags()
	for _, cfile := range p.contractFiles {
		if *cfiles != "" && !hasStr(strings.Split(*cfiles, ","), filepath.Base(cfile)) {
			continue
		}
		if err := p.parseContracts(cfile, nil); err != nil {
			fmt.Fprintln(os.Stderr, "govc: contract error:", err)
			os.Exit(2)
		}
	}
	if p.interference {
		p.filterForInterference()
	}
	p.computeMods()
	if *dumpFn != "" {
		if fn := p.funcs[*dumpFn]; fn != nil {
			fn.WriteTo(os.Stdout)
		}
		return
	}
	if *showLoops != "" {
		fn := p.funcs[*showLoops]
		if fn == nil {
			fmt.Println("no such function")
			os.Exit(2)
		}
		f := newFrame(newEnc(p), p, fn, "", true)
		f.findLoops()
		type row struct {
			ord  int
			line string
		}
		var rows []row
		for h, li := range f.loops {
			pos := "?"
			for _, in := range h.Instrs {
				if in.Pos().IsValid() {
					pos = p.pos(in.Pos()) + "  " + p.srcLine(in.Pos())
					break
				}
			}
			if pos == "?" {
				for b := range li.blocks {
					for _, in := range b.Instrs {
						if in.Pos().IsValid() && pos == "?" {
							pos = p.pos(in.Pos()) + "  " + p.srcLine(in.Pos())
						}
					}
				}
			}
			rows = append(rows, row{li.ordinal, fmt.Sprintf("block %d  %s", h.Index, pos)})
		}
		sort.Slice(rows, func(i, j int) bool { return rows[i].ord < rows[j].ord })
		for _, r := range rows {
			fmt.Printf("loop %d: %s\n", r.ord, r.line)
		}
		return
	}

	timeout := 10
	if *tier == "thorough" {
		timeout = 60
	}
	// select functions
	var names []string
	for name, c := range p.contracts {
		if *fnFilter != "" && name != *fnFilter {
			continue
		}
		if c.Inline || c.Pure {
			continue
		}
		names = append(names, name)
	}
	sort.Strings(names)
	scratch := *dump
	if scratch == "" {
		scratch, err = os.MkdirTemp("", "govc")
		if err != nil {
			fmt.Fprintln(os.Stderr, err)
			os.Exit(2)
		}
		defer os.RemoveAll(scratch)
	} else {
		os.MkdirAll(scratch, 0o755)
	}

	run := &Run{p: p, prop: *prop, tier: *tier, seed: *seed, timeout: timeout, scratch: scratch, verifDir: *verifDir, start: start}
	for _, name := range names {
		c := p.contracts[name]
		if c.Abstract {
			run.abstract = append(run.abstract, name)
			continue
		}
		enc, err := p.verifyFunction(name)
		if err != nil {
			run.engineErrors = append(run.engineErrors, err.Error())
			continue
		}
		n := 0
		for _, o := range enc.obls {
			props := o.Props
			if len(props) == 0 {
				props = autoProps(c, o)
			}
			if *prop != "" && !hasStr(props, *prop) {
				continue
			}
			if *oblFilter != "" && !strings.Contains(o.Name, *oblFilter) {
				continue
			}
			if !claimed(c, o) {
				continue
			}
			run.items = append(run.items, &OblResult{Obl: o, Enc: enc})
			n++
		}
		if n > 0 {
			run.funcs = append(run.funcs, funcInfo{name, n, enc})
		}
	}
	// lemmas instantiated by the encodings above are proved as obligations of the same run
	var lnames []string
	for n := range p.usedLemmas {
		lnames = append(lnames, n)
	}
	sort.Strings(lnames)
	for _, n := range lnames {
		if p.lemmas[n].Proved == "definition" {
			continue
		}
		if *fnFilter != "" {
			continue
		}
		enc, err := p.verifyLemma(n)
		if err != nil {
			run.engineErrors = append(run.engineErrors, err.Error())
			continue
		}
		p.lemmas[n].Proved = "proved in this run"
		for _, o := range enc.obls {
			if *oblFilter != "" && !strings.Contains(o.Name, *oblFilter) {
				continue
			}
			run.items = append(run.items, &OblResult{Obl: o, Enc: enc})
		}
		run.funcs = append(run.funcs, funcInfo{"lemma " + n, 1, enc})
	}
	if *list {
		for _, it := range run.items {
			fmt.Printf("%s :: %s [%s]\n", it.Obl.Func, it.Obl.Name, it.Obl.Class)
		}
		return
	}
	// discharge
	kfile := loadKnown(filepath.Join(*verifDir, "known_findings.json"))
	knownSet := map[string]bool{}
	for _, k := range kfile.Known {
		knownSet[k.Func+" :: "+k.Obligation] = true
	}
	var wg sync.WaitGroup
	sem := make(chan struct{}, 4)
	for i, it := range run.items {
		wg.Add(1)
		go func(i int, it *OblResult) {
			defer wg.Done()
			sem <- struct{}{}
			defer func() { <-sem }()
			want := "unsat"
			if it.Obl.Cover {
				want = "sat"
			}
			t := timeout
			if knownSet[it.Obl.Func+" :: "+it.Obl.Name] && *tier != "thorough" {
				t = 3 // recorded finding: expected to stay undischarged; do not spend the full budget on it
			}
			it.Res = solve(scratch, i, it.Enc, it.Obl, t, *seed, *tier == "thorough")
			it.OK = it.Res.Status == want && it.Res.Conflict == ""
		}(i, it)
	}
	wg.Wait()
	if *verbose {
		for _, it := range run.items {
			if it.Res.Seconds > 1 {
				fmt.Printf("slow %.1fs %s :: %s [%s by %s]\n", it.Res.Seconds, it.Obl.Func, it.Obl.Name, it.Res.Status, it.Res.Solver)
			}
		}
	}
	code := run.report(*noEvidence)
	os.Exit(code)
}

type funcInfo struct {
	name string
	n    int
	enc  *Enc
}

type Run struct {
	p            *Program
	prop, tier   string
	seed         int
	timeout      int
	scratch      string
	verifDir     string
	start        time.Time
	items        []*OblResult
	funcs        []funcInfo
	abstract     []string
	engineErrors []string
}

func contractServes(c *Contract, prop string) bool {
	if hasStr(c.Props, prop) {
		return true
	}
	for _, cl := range c.Ensures {
		if hasStr(cl.Props, prop) {
			return true
		}
	}
	for _, ps := range c.Checks {
		if hasStr(ps, prop) {
			return true
		}
	}
	for _, l := range c.Loops {
		for _, cl := range l.Invs {
			if hasStr(cl.Props, prop) {
				return true
			}
		}
	}
	return false
}

// autoProps: properties served by an obligation without explicit tags.
func autoProps(c *Contract, o *Obl) []string {
	if ps, ok := c.Checks[o.Class]; ok && len(ps) > 0 {
		return ps
	}
	return c.Props
}

// claimed: automatic obligation classes are only claimed when the contract asks for them.
func claimed(c *Contract, o *Obl) bool {
	switch o.Class {
	case "panic", "overflow", "lock", "frame", "reflect":
		_, ok := c.Checks[o.Class]
		return ok
	}
	return true
}

// registerTags: stable tag numbers for basic types and all package-level named types.
func (p *Program) registerTags() {
	for _, k := range []types.BasicKind{types.Bool, types.Int, types.Int8, types.Int16, types.Int32, types.Int64,
		types.Uint, types.Uint8, types.Uint16, types.Uint32, types.Uint64, types.Uintptr, types.Float32, types.Float64, types.String} {
		p.tagOf(types.Typ[k])
	}
	ifaceT := types.NewInterfaceType(nil, nil)
	p.tagOf(types.NewSlice(ifaceT))
	p.tagOf(types.NewMap(types.Typ[types.String], ifaceT))
	var names []string
	for name, mem := range p.spkg.Members {
		if _, ok := mem.(*ssa.Type); ok {
			names = append(names, name)
		}
	}
	sort.Strings(names)
	for _, n := range names {
		t := p.spkg.Members[n].(*ssa.Type).Type()
		if _, isI := t.Underlying().(*types.Interface); isI {
			continue
		}
		p.tagOf(t)
		p.tagOf(types.NewPointer(t))
	}
}
