package main

// Translation of contract expressions into SMT terms, in a given environment and pair of states.

import (
	"fmt"
	"os"
	"go/token"
	"go/types"
	"math/big"
	"sort"
	"strings"

	"golang.org/x/tools/go/ssa"
)

type tv struct {
	t  T
	ty types.Type // may be nil for spec-only values (then the sort decides)
}

type Translator struct {
	f        *Frame
	env      map[string]tv
	cur, old State
	allocOld T
	block    *ssa.BasicBlock
	phiEnv   map[*ssa.Phi]T
	li       *loopInfo
	bound    map[string]tv
	inOld    bool
	depth    int
	appendSite bool
	symInner map[string]T
	symInnerOrder []T
}

type trErr struct{ msg string }

func (tr *Translator) fail(format string, args ...interface{}) {
	panic(trErr{fmt.Sprintf(format, args...)})
}

func (f *Frame) translator(b *ssa.BasicBlock, phiEnv map[*ssa.Phi]T, st State, li *loopInfo) *Translator {
	return &Translator{f: f, cur: st, old: f.entrySt, block: b, phiEnv: phiEnv, li: li, allocOld: stLookup(f.enc, f.entrySt, "alloc")}
}

func (tr *Translator) state() State {
	if tr.inOld {
		return tr.old
	}
	return tr.cur
}

func (tr *Translator) stVar(name string, sort Sort) T {
	return stOr(tr.f.enc, tr.state(), name, sort)
}

func (tr *Translator) boolExpr(e Expr) T {
	v := tr.expr(e)
	if v.t.Sort != SBool {
		tr.fail("expected boolean, got sort %s for %s", v.t.Sort, v.t.S)
	}
	return v.t
}

var tyInt = types.Typ[types.Int]
var tyBool = types.Typ[types.Bool]
var tyString = types.Typ[types.String]

func (tr *Translator) goType(src string) types.Type {
	p := tr.f.p
	switch src {
	case "int":
		return tyInt
	case "bool":
		return tyBool
	case "string":
		return tyString
	}
	tvv, err := types.Eval(p.fset, p.pkg.Types, token.NoPos, src)
	if err != nil {
		// try with imports of the package files
		for _, file := range p.pkg.Syntax {
			tvv, err = types.Eval(p.fset, p.pkg.Types, file.End()-1, src)
			if err == nil {
				break
			}
		}
		if err != nil {
			tr.fail("cannot resolve type %q: %v", src, err)
		}
	}
	return tvv.Type
}

func (tr *Translator) lookupIdent(name string) tv {
	if v, ok := tr.bound[name]; ok {
		return v
	}
	if v, ok := tr.env[name]; ok {
		return v
	}
	f := tr.f
	if tr.block != nil {
		// phi at the loop header carrying this source variable (inside old() a parameter name means its entry value)
		if v, ok := f.params[name]; ok && tr.inOld {
			return tv{v, f.paramTy[name]}
		}
		if tr.li != nil {
			for phi, t := range tr.phiEnv {
				if phi.Comment == name && phi.Block() == tr.li.header {
					return tv{t, phi.Type()}
				}
			}
		}
		if v, ok := f.params[name]; ok {
			return tv{v, f.paramTy[name]}
		}
		if name == "rangebound" && tr.li != nil {
			if v := rangeBoundVal(tr.li.header); v != nil {
				return tv{f.val(v), tyInt}
			}
		}
		// hidden loop variables (rangeindex) of an enclosing loop: the header phi of the innermost enclosing loop that has one
		if name == "rangeindex" || name == "rangeindex_outer" {
			var best *ssa.Phi
			for _, eli := range f.inLoop[tr.block] {
				if tr.li != nil && eli == tr.li {
					continue
				}
				for _, in := range eli.header.Instrs {
					phi, ok := in.(*ssa.Phi)
					if !ok {
						break
					}
					if phi.Comment == "rangeindex" {
						if _, ok := f.vals[phi]; ok && (best == nil || best.Block().Dominates(phi.Block())) {
							best = phi
						}
					}
				}
			}
			if best != nil {
				return tv{f.vals[best], best.Type()}
			}
		}
		// a debug reference dominating the block
		var best *nameRef
		for i := range f.names[name] {
			nr := &f.names[name][i]
			if nr.addr {
				continue
			}
			if nr.block == tr.block || nr.block.Dominates(tr.block) {
				if _, ok := f.vals[nr.val]; ok || isConst(nr.val) {
					if phi, isPhi := nr.val.(*ssa.Phi); isPhi && tr.li != nil && phi.Block() == tr.li.header {
						if t, ok := tr.phiEnv[phi]; ok {
							return tv{t, phi.Type()}
						}
					}
					best = nr
				}
			}
		}
		if best != nil {
			if os.Getenv("GOVC_DEBUG") != "" {
				fmt.Fprintf(os.Stderr, "lookup %s at block %d in %s -> %s = %s (%T) from block %d idx %d\n", name, tr.block.Index, f.fname, best.val.Name(), f.val(best.val).S, best.val, best.block.Index, best.idx)
			}
			return tv{f.val(best.val), best.val.Type()}
		}
		// no debug reference dominates this block: the value that reaches its entry along every path (forward data flow over
		// the debug references, the phis named after the variable, and the zero value of a named result at function entry)
		if v, zero, ok := f.reachingIn(name, tr.block); ok {
			if zero != nil {
				s := f.p.sortOf(zero)
				f.enc.declSortOf(s)
				return tv{f.enc.zero(s), zero}
			}
			if _, has := f.vals[v]; has || isConst(v) {
				return tv{f.val(v), v.Type()}
			}
		}
		// the closest dominating phi that merges this source variable
		// (a named result assigned on one branch only and not mentioned again before a naked return)
		var bphi *ssa.Phi
		for _, b := range f.fn.Blocks {
			if b != tr.block && !b.Dominates(tr.block) {
				continue
			}
			for _, in := range b.Instrs {
				phi, ok := in.(*ssa.Phi)
				if !ok {
					break
				}
				if phi.Comment != name {
					continue
				}
				if _, ok := f.vals[phi]; !ok {
					continue
				}
				if bphi == nil || bphi.Block().Dominates(phi.Block()) {
					bphi = phi
				}
			}
		}
		if bphi != nil {
			return tv{f.vals[bphi], bphi.Type()}
		}
	} else if v, ok := f.params[name]; ok {
		return tv{v, f.paramTy[name]}
	}
	// package-level objects
	if obj := f.p.pkg.Types.Scope().Lookup(name); obj != nil {
		switch o := obj.(type) {
		case *types.Const:
			s := f.p.sortOf(o.Type())
			switch s {
			case SInt:
				bi, _ := new(big.Int).SetString(o.Val().ExactString(), 10)
				if bi != nil {
					return tv{BigLit(bi), o.Type()}
				}
			case SStr:
				return tv{f.p.strLit(f.enc, strings.Trim(o.Val().ExactString(), "\"")), o.Type()}
			case SBool:
				if o.Val().String() == "true" {
					return tv{True, o.Type()}
				}
				return tv{False, o.Type()}
			}
		case *types.Var:
			s := f.p.sortOf(o.Type())
			f.enc.declSortOf(s)
			return tv{tr.stVar("G_"+name, s), o.Type()}
		}
	}
	if name == "held" {
		// the set of mutexes held by the executing thread (ghost)
		return tv{tr.stVar("held", ArrSort(SInt, SBool)), nil}
	}
	if sf, ok := f.p.specs[name]; ok && len(sf.Params) == 0 {
		return tr.specApp(sf, nil)
	}
	tr.fail("unknown identifier %q", name)
	return tv{}
}

func isConst(v ssa.Value) bool { _, ok := v.(*ssa.Const); return ok }

func (tr *Translator) expr(e Expr) tv {
	switch x := e.(type) {
	case *EInt:
		bi, ok := new(big.Int).SetString(x.Val, 0)
		if !ok {
			tr.fail("bad integer %q", x.Val)
		}
		return tv{BigLit(bi), tyInt}
	case *EStr:
		return tv{tr.f.p.strLit(tr.f.enc, unescapeGo(x.Val)), tyString}
	case *EBool:
		if x.Val {
			return tv{True, tyBool}
		}
		return tv{False, tyBool}
	case *ENil:
		return tv{T{"nil", "Nil"}, nil}
	case *EIdent:
		return tr.lookupIdent(x.Name)
	case *EGhost:
		if x.Name == "#alloc" {
			return tv{tr.stVar("alloc", SInt), tyInt}
		}
		if kt, ok := tr.f.p.ghostMaps[x.Name]; ok {
			ks := tr.f.p.sortOf(tr.goType(kt))
			tr.f.enc.declSortOf(ks)
			vs := SInt
			if vt, ok := tr.f.p.ghostVals[x.Name]; ok {
				vs = tr.f.p.sortOf(tr.goType(vt))
				tr.f.enc.declSortOf(vs)
				// remember the Go type of the values for indexing
				return tv{tr.stVar(x.Name, ArrSort(ks, vs)), types.NewMap(tr.goType(kt), tr.goType(vt))}
			}
			return tv{tr.stVar(x.Name, ArrSort(ks, vs)), nil}
		}
		return tv{tr.stVar(x.Name, SInt), tyInt}
	case *EUnary:
		v := tr.expr(x.X)
		switch x.Op {
		case "!":
			return tv{Not(v.t), tyBool}
		case "-":
			return tv{App(SInt, "-", v.t), v.ty}
		}
	case *EBinary:
		return tr.binary(x)
	case *ESel:
		return tr.sel(tr.expr(x.X), x.F)
	case *EIndex:
		return tr.index(tr.expr(x.X), tr.expr(x.I))
	case *ESlice:
		b := tr.expr(x.X)
		if b.t.Sort != SSlice {
			tr.fail("slice expression on non-slice")
		}
		lo, hi := Zero, SLen(b.t)
		if x.Lo != nil {
			lo = tr.expr(x.Lo).t
		}
		if x.Hi != nil {
			hi = tr.expr(x.Hi).t
		}
		return tv{MkSlice(SPtr(b.t), Add(SOff(b.t), lo), Sub(hi, lo), Sub(SCap(b.t), lo)), b.ty}
	case *EQuant:
		return tr.quant(x)
	case *ECall:
		return tr.call(x)
	}
	tr.fail("unsupported expression %T", e)
	return tv{}
}

func unescapeGo(s string) string {
	r := strings.NewReplacer(`\n`, "\n", `\t`, "\t", `\"`, "\"", `\\`, "\\", `\r`, "\r")
	return r.Replace(s)
}

func (tr *Translator) coerceNil(a, b tv) (tv, tv) {
	fix := func(n tv, o tv) tv {
		if n.t.Sort != "Nil" {
			return n
		}
		switch o.t.Sort {
		case SInt:
			return tv{Zero, o.ty}
		case SIface:
			return tv{NilI, o.ty}
		case SSlice:
			return tv{NilSlice, o.ty}
		}
		tr.fail("nil compared with sort %s", o.t.Sort)
		return n
	}
	return fix(a, b), fix(b, a)
}

func (tr *Translator) binary(x *EBinary) tv {
	switch x.Op {
	case "&&":
		return tv{And(tr.boolExpr(x.X), tr.boolExpr(x.Y)), tyBool}
	case "||":
		return tv{Or(tr.boolExpr(x.X), tr.boolExpr(x.Y)), tyBool}
	case "==>":
		return tv{Implies(tr.boolExpr(x.X), tr.boolExpr(x.Y)), tyBool}
	case "<==>":
		return tv{Eq(tr.boolExpr(x.X), tr.boolExpr(x.Y)), tyBool}
	}
	a, b := tr.expr(x.X), tr.expr(x.Y)
	a, b = tr.coerceNil(a, b)
	switch x.Op {
	case "==", "!=":
		var eq T
		switch {
		case a.t.Sort == SSlice && (b.t.S == NilSlice.S):
			eq = Eq(SPtr(a.t), Zero)
		case a.t.Sort == SIface && b.t.S == "nilI":
			eq = Eq(App(SInt, "tag", a.t), Zero)
		case a.t.Sort == SIface && a.t.S == "nilI":
			eq = Eq(App(SInt, "tag", b.t), Zero)
		case isFloatSort(a.t.Sort):
			eq = App(SBool, "fp.eq", a.t, b.t)
		default:
			if a.t.Sort != b.t.Sort {
				tr.fail("comparison of different sorts: %s:%s vs %s:%s", a.t.S, a.t.Sort, b.t.S, b.t.Sort)
			}
			eq = Eq(a.t, b.t)
		}
		if x.Op == "!=" {
			eq = Not(eq)
		}
		return tv{eq, tyBool}
	case "<", "<=", ">", ">=":
		if isFloatSort(a.t.Sort) {
			op := map[string]string{"<": "fp.lt", "<=": "fp.leq", ">": "fp.gt", ">=": "fp.geq"}[x.Op]
			return tv{App(SBool, op, a.t, b.t), tyBool}
		}
		if a.t.Sort == SReal || b.t.Sort == SReal {
			return tv{App(SBool, x.Op, toReal(a.t), toReal(b.t)), tyBool}
		}
		return tv{App(SBool, x.Op, a.t, b.t), tyBool}
	case "+":
		if a.t.Sort == SStr {
			return tv{App(SStr, "strcat", a.t, b.t), a.ty}
		}
		return tv{Add(a.t, b.t), a.ty}
	case "-":
		return tv{Sub(a.t, b.t), a.ty}
	case "*":
		return tv{App(SInt, "*", a.t, b.t), a.ty}
	case "/":
		return tv{tdiv(a.t, b.t), a.ty}
	case "%":
		return tv{Sub(a.t, App(SInt, "*", b.t, tdiv(a.t, b.t))), a.ty}
	}
	tr.fail("unsupported operator %s", x.Op)
	return tv{}
}

func toReal(t T) T {
	if t.Sort == SInt {
		return App(SReal, "to_real", t)
	}
	return t
}

// sel: field selection through pointers and embedded structs.
func (tr *Translator) sel(x tv, name string) tv {
	f := tr.f
	if x.ty == nil {
		tr.fail("field %s of untyped value", name)
	}
	// slices: pseudo-fields
	obj, path, _ := types.LookupFieldOrMethod(x.ty, true, f.p.pkg.Types, name)
	fld, ok := obj.(*types.Var)
	if !ok || fld == nil {
		tr.fail("no field %s in %s", name, x.ty)
	}
	cur := x.ty
	addr := x.t
	if p, ok := cur.Underlying().(*types.Pointer); ok {
		cur = p.Elem()
	} else {
		tr.fail("field selection on non-pointer %s", x.ty)
	}
	for k, idx := range path {
		st, ok := structOf(cur)
		if !ok {
			tr.fail("not a struct: %s", cur)
		}
		ft := st.Field(idx).Type()
		arr, asort := f.p.fieldArray(cur, idx)
		_, vs := arrParts(asort)
		f.enc.declSortOf(vs)
		if k == len(path)-1 {
			if isMutex(ft) {
				return tv{f.p.muAddr(f.enc, addr, cur, idx), types.NewPointer(ft)}
			}
			if _, isStruct := structOf(ft); isStruct {
				// address of nested struct
				return tv{Add(addr, IntLit(fieldOffset(st, idx))), types.NewPointer(ft)}
			}
			return tv{Select(tr.stVar(arr, asort), addr), ft}
		}
		if _, isStruct := structOf(ft); isStruct {
			addr = Add(addr, IntLit(fieldOffset(st, idx)))
			cur = ft
		} else if p, ok := ft.Underlying().(*types.Pointer); ok {
			addr = Select(tr.stVar(arr, asort), addr)
			cur = p.Elem()
		} else {
			tr.fail("bad embedded field path")
		}
	}
	return tv{}
}

func (tr *Translator) index(x, i tv) tv {
	f := tr.f
	switch {
	case x.t.Sort == SSlice:
		var et types.Type
		var es Sort
		if x.ty != nil {
			et = x.ty.Underlying().(*types.Slice).Elem()
			es = f.p.sortOf(et)
		} else {
			tr.fail("index of untyped slice")
		}
		f.enc.declSortOf(es)
		arr := f.p.sliceArray(et)
		as := ArrSort(SInt, ArrSort(SInt, es))
		// element access through an uninterpreted accessor (axiomatised as the select), so that
		// quantifier triggers contain no arithmetic
		_ = arr
		_ = as
		return tv{atTerm(f.enc, es, tr.innerOf(x.t, et), SOff(x.t), i.t), et}
	case x.t.Sort == SStr:
		return tv{App(SInt, "byteAt", x.t, i.t), types.Typ[types.Uint8]}
	case x.ty != nil && strings.HasPrefix(string(x.t.Sort), "(Array"):
		if mt, ok := x.ty.Underlying().(*types.Map); ok {
			return tv{Select(x.t, i.t), mt.Elem()}
		}
	case x.ty != nil:
		if mt, ok := x.ty.Underlying().(*types.Map); ok {
			return tv{tr.f.mapGet(tr.state(), mt, x.t, i.t), mt.Elem()}
		}
	}
	if strings.HasPrefix(string(x.t.Sort), "(Array") {
		_, vs := arrParts(x.t.Sort)
		var rty types.Type
		if vs == SInt {
			rty = tyInt
		}
		return tv{Select(x.t, i.t), rty}
	}
	tr.fail("cannot index %s", x.t.Sort)
	return tv{}
}

var qcount int

func (tr *Translator) quant(x *EQuant) tv {
	if x.Split != nil {
		// proof hint: (forall k. R ==> B) as (forall k. S && R ==> B) && (forall k. !S && R ==> B)
		a, b := *x, *x
		a.Split, b.Split = nil, nil
		if x.Forall {
			a.Body = &EBinary{"==>", x.Split, x.Body}
			b.Body = &EBinary{"==>", &EUnary{"!", x.Split}, x.Body}
			return tv{And(tr.quant(&a).t, tr.quant(&b).t), tyBool}
		}
		a.Body = &EBinary{"&&", x.Split, x.Body}
		b.Body = &EBinary{"&&", &EUnary{"!", x.Split}, x.Body}
		return tv{Or(tr.quant(&a).t, tr.quant(&b).t), tyBool}
	}
	if x.Forall {
		// distribute over a conjunctive consequent: forall k. P ==> (A && B)  ==  (forall k. P ==> A) && (forall k. P ==> B)
		if parts := distributeImp(x.Body); len(parts) > 1 {
			var ts []T
			for _, b := range parts {
				c := *x
				c.Body = b
				ts = append(ts, tr.quant(&c).t)
			}
			return tv{And(ts...), tyBool}
		}
	}
	saved := tr.bound
	nb := map[string]tv{}
	for k, v := range saved {
		nb[k] = v
	}
	var decl []string
	var guards []T
	for _, v := range x.Vars {
		ty := tr.goType(v.Type)
		s := tr.f.p.sortOf(ty)
		tr.f.enc.declSortOf(s)
		qcount++
		name := fmt.Sprintf("%s!q%d", v.Name, qcount)
		nb[v.Name] = tv{T{name, s}, ty}
		decl = append(decl, fmt.Sprintf("(%s %s)", name, s))
		// type invariants of bound variables
		if b, ok := ty.Underlying().(*types.Basic); ok && v.Type != "int" {
			if r, ok := rangeOf(b); ok {
				guards = append(guards, inRange(T{name, s}, r))
			}
		}
		if s == SStr {
			guards = append(guards, App(SBool, ">=", App(SInt, "strlen", T{name, s}), Zero))
		}
	}
	tr.bound = nb
	body := tr.boolExpr(x.Body)
	var pats []string
	for _, grp := range x.Patterns {
		var ts []string
		for _, pe := range grp {
			// has(m, k) as a trigger: the raw domain lookup (the nil-map guard is not a term a pattern may contain)
			if c, ok := pe.(*ECall); ok && c.Fn == "has" && len(c.Args) == 2 {
				m, k := tr.expr(c.Args[0]), tr.expr(c.Args[1])
				if mt, ok := m.ty.Underlying().(*types.Map); ok {
					_, d, _, ds, _, _ := tr.f.mapParts(mt)
					ts = append(ts, Select(Select(tr.stVar(d, ds), m.t), k.t).S)
					continue
				}
			}
			// m[k] as a trigger: the raw value lookup (the missing-key / nil-map guard is an ite, which a pattern may not contain)
			if ix, ok := pe.(*EIndex); ok {
				m := tr.expr(ix.X)
				if m.ty != nil {
					if mt, ok := m.ty.Underlying().(*types.Map); ok {
						k := tr.expr(ix.I)
						h, _, hs, _, _, _ := tr.f.mapParts(mt)
						ts = append(ts, Select(Select(tr.stVar(h, hs), m.t), k.t).S)
						continue
					}
				}
			}
			ts = append(ts, tr.expr(pe).t.S)
		}
		pats = append(pats, ":pattern ("+strings.Join(ts, " ")+")")
	}
	tr.bound = saved
	kw := "forall"
	if x.Forall {
		body = Implies(And(guards...), body)
	} else {
		kw = "exists"
		body = And(append(guards, body)...)
	}
	if len(pats) > 0 {
		return tv{T{fmt.Sprintf("(%s (%s) (! %s %s))", kw, strings.Join(decl, " "), body.S, strings.Join(pats, " ")), SBool}, tyBool}
	}
	return tv{T{fmt.Sprintf("(%s (%s) %s)", kw, strings.Join(decl, " "), body.S), SBool}, tyBool}
}

var numericKinds = []types.BasicKind{types.Int, types.Int8, types.Int16, types.Int32, types.Int64, types.Uint, types.Uint8, types.Uint16, types.Uint32, types.Uint64, types.Float32, types.Float64}

func (tr *Translator) call(c *ECall) tv {
	f := tr.f
	arg := func(i int) tv {
		if i >= len(c.Args) {
			tr.fail("%s: missing argument %d", c.Fn, i)
		}
		return tr.expr(c.Args[i])
	}
	switch c.Fn {
	case "old":
		saved := tr.inOld
		tr.inOld = true
		v := arg(0)
		tr.inOld = saved
		return v
	case "len":
		v := arg(0)
		switch {
		case v.t.Sort == SSlice:
			return tv{SLen(v.t), tyInt}
		case v.t.Sort == SStr:
			return tv{App(SInt, "strlen", v.t), tyInt}
		case v.ty != nil:
			if mt, ok := v.ty.Underlying().(*types.Map); ok {
				_, d, _, ds, ks, _ := f.mapParts(mt)
				fn := f.enc.declFun("mcard_"+sortSuffix(ks), []Sort{ArrSort(ks, SBool)}, SInt)
				return tv{Ite(Eq(v.t, Zero), Zero, App(SInt, fn, Select(tr.stVar(d, ds), v.t))), tyInt}
			}
		}
		tr.fail("len of %s", v.t.Sort)
	case "cap":
		return tv{SCap(arg(0).t), tyInt}
	case "is":
		v := arg(0)
		ty := tr.goType(c.Raw[0])
		if v.t.Sort != SIface {
			tr.fail("is() on non-interface")
		}
		return tv{isTypeTerm(f.enc, f.p, v.t, ty), tyBool}
	case "as":
		v := arg(0)
		ty := tr.goType(c.Raw[0])
		if _, isI := ty.Underlying().(*types.Interface); isI {
			return tv{v.t, ty}
		}
		s := f.p.sortOf(ty)
		return tv{App(s, f.plFun(s), v.t), ty}
	case "tagof":
		return tv{IntLit(int64(f.p.tagOf(tr.goType(c.Raw[0])))), tyInt}
	case "tag":
		return tv{App(SInt, "tag", arg(0).t), tyInt}
	case "box":
		v := arg(0)
		if v.ty == nil {
			tr.fail("box of untyped value")
		}
		return tv{f.box(v.ty, v.t), types.NewInterfaceType(nil, nil)}
	case "has":
		m, k := arg(0), arg(1)
		mt, ok := m.ty.Underlying().(*types.Map)
		if !ok {
			tr.fail("has() on non-map")
		}
		return tv{f.mapHas(tr.state(), mt, m.t, k.t), tyBool}
	case "seqcat":
		// q followed by all elements of slice p (the term the engine builds for a write of non-constant length)
		q, sl := arg(0), arg(1)
		stp, ok := sl.ty.Underlying().(*types.Slice)
		if !ok {
			tr.fail("seqcat needs a slice")
		}
		es := f.p.sortOf(stp.Elem())
		fn := f.enc.declFun("seqcat_"+sortSuffix(q.t.Sort), []Sort{q.t.Sort, ArrSort(SInt, es), SInt, SInt}, q.t.Sort)
		return tv{App(q.t.Sort, fn, q.t, tr.innerOf(sl.t, stp.Elem()), SOff(sl.t), SLen(sl.t)), q.ty}
	case "runeat":
		tr.f.enc.declFun("runeAt", []Sort{SStr, SInt}, SInt)
		return tv{App(SInt, "runeAt", arg(0).t, arg(1).t), tyInt}
	case "runelen":
		tr.f.enc.declFun("runeLen", []Sort{SStr, SInt}, SInt)
		return tv{App(SInt, "runeLen", arg(0).t, arg(1).t), tyInt}
	case "utf8len":
		return tv{App(SInt, utf8Fns(tr.f.enc)[0], arg(0).t), tyInt}
	case "utf8byte":
		return tv{App(SInt, utf8Fns(tr.f.enc)[1], arg(0).t, arg(1).t), tyInt}
	case "samearray":
		// two slice values share their backing array
		return tv{Eq(SPtr(arg(0).t), SPtr(arg(1).t)), tyBool}
	case "rtypeof":
		fn := tr.f.enc.declFun("rtypeof", []Sort{SIface}, SIface)
		return tv{App(SIface, fn, arg(0).t), tr.goType("reflect.Type")}
	case "rvalid":
		return tv{rvValid(tr.f.enc, arg(0).t), tyBool}
	case "rtype":
		return tv{rvType(tr.f.enc, arg(0).t), tr.goType("reflect.Type")}
	case "rvalidat", "rtypeat":
		// the reflect.Value a *reflect.Value points to
		vt := tr.goType("reflect.Value")
		vs := tr.f.p.sortOf(vt)
		tr.f.enc.declSortOf(vs)
		cell := Select(tr.stVar(tr.f.p.cellArray(vt), ArrSort(SInt, vs)), arg(0).t)
		if c.Fn == "rvalidat" {
			return tv{rvValid(tr.f.enc, cell), tyBool}
		}
		return tv{rvType(tr.f.enc, cell), tr.goType("reflect.Type")}
	case "callok":
		// depends on the argument slice's contents: the backing array is an argument of the predicate
		sl := arg(1).t
		return tv{tr.f.reflectCallOK([]T{arg(0).t, sl, tr.innerOf(sl, tr.goType("reflect.Value"))}), tyBool}
	case "buflen":
		// number of bytes written so far to a bytes.Buffer / strings.Builder (pointer to it)
		return tv{Select(tr.stVar("BUF_len", ArrSort(SInt, SInt)), arg(0).t), tyInt}
	case "held":
		// the mutex (pointer to it) is held by the executing thread
		return tv{Select(tr.stVar("held", ArrSort(SInt, SBool)), arg(0).t), tyBool}
	case "allocated":
		// the reference denotes an object that exists in the current (or old) state
		v := arg(0)
		t := v.t
		if t.Sort == SSlice {
			t = SPtr(t)
		}
		return tv{Le(t, tr.stVar("alloc", SInt)), tyBool}
	case "fresh":
		v := arg(0)
		t := v.t
		if t.Sort == SSlice {
			t = SPtr(t)
		}
		return tv{Lt(tr.allocOld, t), tyBool}
	case "aserr":
		// the *Error that errors.As finds in e's chain (nil when there is none)
		et := types.NewPointer(f.p.pkg.Types.Scope().Lookup("Error").Type())
		return tv{unwrapTerm(f.enc, f.p, arg(0).t, et), et}
	case "isappend":
		// c == a ++ b (element-wise). At append sites the engine substitutes true.
		if tr.appendSite {
			return tv{True, tyBool}
		}
		sf, ok := f.p.specs["concatOf"]
		if !ok {
			tr.fail("isappend needs spec concatOf")
		}
		return tr.specApp(sf, []tv{arg(0), arg(1), arg(2)})
	case "athdr":
		// evaluate in the state (and with the loop variables) of the loop header of the current iteration
		if tr.li == nil || tr.li.stAtHeader == nil {
			tr.fail("athdr() outside a loop context")
		}
		saved, savedPhi := tr.cur, tr.phiEnv
		savedOld := tr.inOld
		tr.cur, tr.phiEnv, tr.inOld = tr.li.stAtHeader, tr.li.phiSyms, false
		v := arg(0)
		tr.cur, tr.phiEnv, tr.inOld = saved, savedPhi, savedOld
		return v
	case "atouter":
		// evaluate in the state at the header of the loop enclosing the current one (current iteration of that loop)
		if tr.li == nil {
			tr.fail("atouter() outside a loop context")
		}
		var outer *loopInfo
		for _, eli := range f.inLoop[tr.li.header] {
			if eli == tr.li || eli.stAtHeader == nil {
				continue
			}
			if outer == nil || len(eli.blocks) < len(outer.blocks) {
				outer = eli
			}
		}
		if outer == nil {
			tr.fail("atouter(): no enclosing loop")
		}
		saved, savedPhi, savedOld, savedLi := tr.cur, tr.phiEnv, tr.inOld, tr.li
		tr.cur, tr.phiEnv, tr.inOld, tr.li = outer.stAtHeader, outer.phiSyms, false, outer
		v := arg(0)
		tr.cur, tr.phiEnv, tr.inOld, tr.li = saved, savedPhi, savedOld, savedLi
		return v
	case "hdr":
		// value of a loop variable at the loop header (the havoced phi), usable inside the loop body / back edge
		id, ok := c.Args[0].(*EIdent)
		if !ok || tr.li == nil {
			tr.fail("hdr() needs a loop variable inside a loop context")
		}
		for phi, t := range tr.li.phiSyms {
			if phi.Comment == id.Name {
				return tv{t, phi.Type()}
			}
		}
		// on entry (before the havoc) fall back to the current value
		return tr.lookupIdent(id.Name)
	case "addrof":
		// pointer to an address-taken local variable
		id, ok := c.Args[0].(*EIdent)
		if !ok {
			tr.fail("addrof needs a variable name")
		}
		for i := range f.names[id.Name] {
			nr := &f.names[id.Name][i]
			if nr.addr && tr.block != nil && (nr.block == tr.block || nr.block.Dominates(tr.block)) {
				if _, ok := f.vals[nr.val]; ok {
					return tv{f.val(nr.val), nr.val.Type()}
				}
			}
		}
		tr.fail("addrof(%s): no such address-taken variable here", id.Name)
	case "ptrlike":
		return tv{App(SBool, "ptrlike", App(SInt, "tag", arg(0).t)), tyBool}
	case "slicelike":
		// the dynamic type of the interface value is a slice type
		return tv{App(SBool, "slicelike", App(SInt, "tag", arg(0).t)), tyBool}
	case "ptrval":
		return tv{App(SInt, "pl_Int", arg(0).t), tyInt}
	case "isfinite":
		v := arg(0)
		return tv{mk(SBool, "(not (or (fp.isNaN %[1]s) (fp.isInfinite %[1]s)))", v.t.S), tyBool}
	case "isnan":
		return tv{App(SBool, "fp.isNaN", arg(0).t), tyBool}
	case "real":
		v := arg(0)
		if isFloatSort(v.t.Sort) {
			return tv{App(SReal, "fp.to_real", v.t), nil}
		}
		return tv{toReal(v.t), nil}
	case "isnum":
		v := arg(0)
		var ds []T
		for _, k := range numericKinds {
			ds = append(ds, Eq(App(SInt, "tag", v.t), IntLit(int64(f.p.tagOf(types.Typ[k])))))
		}
		return tv{Or(ds...), tyBool}
	case "num":
		// integer value of a dynamic value of any integer kind
		return tv{App(SInt, "pl_Int", arg(0).t), tyInt}
	case "isint":
		v := arg(0)
		var ds []T
		for _, k := range numericKinds[:10] {
			ds = append(ds, Eq(App(SInt, "tag", v.t), IntLit(int64(f.p.tagOf(types.Typ[k])))))
		}
		return tv{Or(ds...), tyBool}
	case "f64":
		v := arg(0)
		if v.t.Sort == SF32 {
			return tv{mk(SF64, "((_ to_fp 11 53) RNE %s)", v.t.S), types.Typ[types.Float64]}
		}
		if v.t.Sort == SF64 {
			return v
		}
		return tv{intToFloat(f.enc, v.t, SF64), types.Typ[types.Float64]}
	case "f32":
		v := arg(0)
		if v.t.Sort == SF64 {
			return tv{mk(SF32, "((_ to_fp 8 24) RNE %s)", v.t.S), types.Typ[types.Float32]}
		}
		if v.t.Sort == SF32 {
			return v
		}
		return tv{intToFloat(f.enc, v.t, SF32), types.Typ[types.Float32]}
	case "trunc":
		v := arg(0)
		return tv{mk(v.t.Sort, "(fp.roundToIntegral RTZ %s)", v.t.S), v.ty}
	case "seen":
		// seen(ordinal, key): visited set of the map-range loop with that ordinal
		ord := c.Args[0].(*EInt).Val
		k := arg(1)
		for x, it := range f.iters {
			_ = x
			if it.isMap && fmt.Sprint(f.iterLoopOrdinal(x)) == ord {
				return tv{Select(tr.stVar(it.stvar, ArrSort(k.t.Sort, SBool)), k.t), tyBool}
			}
		}
		tr.fail("no map iterator for loop %s", ord)
	case "indomain":
		ord := c.Args[0].(*EInt).Val
		k := arg(1)
		for x, it := range f.iters {
			if it.isMap && fmt.Sprint(f.iterLoopOrdinal(x)) == ord {
				return tv{Select(it.domain, k.t), tyBool}
			}
		}
		tr.fail("no map iterator for loop %s", ord)
	case "strpos":
		ord := c.Args[0].(*EInt).Val
		for x, it := range f.iters {
			if !it.isMap && fmt.Sprint(f.iterLoopOrdinal(x)) == ord {
				return tv{tr.stVar(it.stvar, SInt), tyInt}
			}
		}
		tr.fail("no string iterator for loop %s", ord)
	case "ite":
		c0, a, b := arg(0), arg(1), arg(2)
		a, b = tr.coerceNil(a, b)
		return tv{Ite(c0.t, a.t, b.t), a.ty}
	case "int32wrap":
		r, _ := rangeOf(types.Typ[types.Int32])
		return tv{wrapTo(arg(0).t, r), tyInt}
	case "embed0":
		// pointer to the struct embedded as the first field of *p (same address, type of that field)
		v := arg(0)
		pt, ok := v.ty.Underlying().(*types.Pointer)
		if !ok {
			tr.fail("embed0 of a non-pointer")
		}
		st, ok := pt.Elem().Underlying().(*types.Struct)
		if !ok || st.NumFields() == 0 || !st.Field(0).Embedded() {
			tr.fail("embed0: the first field is not an embedded struct")
		}
		return tv{v.t, types.NewPointer(st.Field(0).Type())}
	case "addr":
		// address value of a pointer expression
		return tv{arg(0).t, tyInt}
	case "implements":
		v := arg(0)
		_ = v
	}
	if strings.HasPrefix(c.Fn, ".") {
		return tr.methodCall(c)
	}
	if sf, ok := f.p.specs[c.Fn]; ok {
		var args []tv
		for i := range c.Args {
			args = append(args, arg(i))
		}
		return tr.specApp(sf, args)
	}
	// pure package function
	if fn, ok := f.p.funcs[c.Fn]; ok {
		if con := f.p.contracts[c.Fn]; con != nil && con.Pure {
			var args []T
			for i := range c.Args {
				args = append(args, arg(i).t)
			}
			return tv{f.pureApp(c.Fn, fn.Signature, args), fn.Signature.Results().At(0).Type()}
		}
	}
	tr.fail("unknown function %q", c.Fn)
	return tv{}
}

// methodCall: x.M(args) for pure methods (interface or concrete).
func (tr *Translator) methodCall(c *ECall) tv {
	f := tr.f
	recv := tr.expr(c.Args[0])
	name := c.Fn[1:]
	if recv.ty == nil {
		tr.fail("method call on untyped value")
	}
	args := []T{recv.t}
	for _, a := range c.Args[1:] {
		args = append(args, tr.expr(a).t)
	}
	if _, isI := recv.ty.Underlying().(*types.Interface); isI {
		key := f.p.ifaceMethodKey(recv.ty, name)
		con := f.p.ifaceCons[key]
		if con == nil || !con.Pure {
			tr.fail("method %s is not declared pure", key)
		}
		obj, _, _ := types.LookupFieldOrMethod(recv.ty, true, f.p.pkg.Types, name)
		fn := obj.(*types.Func)
		sig := fn.Type().(*types.Signature)
		return tv{f.pureApp(key, sig, args), sig.Results().At(0).Type()}
	}
	tr.fail("method calls on concrete types not supported in contracts: %s", name)
	return tv{}
}

func (tr *Translator) specApp(sf *SpecFn, args []tv) tv {
	f := tr.f
	if len(args) != len(sf.Params) {
		tr.fail("spec %s: expected %d arguments, got %d", sf.Name, len(sf.Params), len(args))
	}
	if sf.Def != nil {
		if tr.depth > 20 {
			tr.fail("spec %s: macro expansion too deep (recursive definition?)", sf.Name)
		}
		saved := tr.bound
		nb := map[string]tv{}
		for k, v := range saved {
			nb[k] = v
		}
		for i, p := range sf.Params {
			a := args[i]
			pt := tr.goType(p.Type)
			if a.t.Sort == "Nil" {
				a, _ = tr.coerceNil(a, tv{f.enc.zero(f.p.sortOf(pt)), pt})
			}
			if a.t.Sort != f.p.sortOf(pt) {
				tr.fail("spec %s: argument %d has sort %s, expected %s", sf.Name, i, a.t.Sort, f.p.sortOf(pt))
			}
			a.ty = pt
			nb[p.Name] = a
		}
		tr.bound = nb
		tr.depth++
		r := tr.expr(sf.Def)
		tr.depth--
		tr.bound = saved
		if r.ty == nil && sf.Ret != "" && sf.Ret != "real" {
			r.ty = tr.goType(sf.Ret)
		}
		return r
	}
	var sorts []Sort
	var ts []T
	readsElems := map[string]bool{}
	for _, r := range sf.Reads {
		if strings.HasSuffix(r, "[]") {
			readsElems[strings.TrimSuffix(r, "[]")] = true
		}
	}
	for i, p := range sf.Params {
		pt := tr.goType(p.Type)
		s := f.p.sortOf(pt)
		a := args[i]
		if a.t.Sort == "Nil" {
			a, _ = tr.coerceNil(a, tv{f.enc.zero(s), pt})
		}
		if a.t.Sort != s {
			tr.fail("spec %s: argument %d has sort %s, expected %s", sf.Name, i, a.t.Sort, s)
		}
		if readsElems[p.Name] {
			// a slice whose elements are read: the function depends on (backing array, offset, length) only
			st, ok := pt.Underlying().(*types.Slice)
			if !ok {
				tr.fail("spec %s: reads %s[]: not a slice parameter", sf.Name, p.Name)
			}
			es := f.p.sortOf(st.Elem())
			f.enc.declSortOf(es)
			sorts = append(sorts, ArrSort(SInt, es), SInt, SInt)
			ts = append(ts, tr.innerOf(a.t, st.Elem()), SOff(a.t), SLen(a.t))
			continue
		}
		sorts = append(sorts, s)
		ts = append(ts, a.t)
	}
	for _, r := range sf.Reads {
		if strings.HasSuffix(r, "[]") {
			continue
		}
		sort, ok := f.enc.stateSort[r]
		if !ok {
			sort = f.readSort(r)
		}
		sorts = append(sorts, sort)
		ts = append(ts, tr.stVar(r, sort))
	}
	var rs Sort
	var rty types.Type
	if sf.Ret == "real" {
		rs = SReal
	} else {
		rty = tr.goType(sf.Ret)
		rs = f.p.sortOf(rty)
	}
	f.enc.declSortOf(rs)
	fn := f.enc.declFun("spec_"+sf.Name, sorts, rs)
	tr.installAutoLemmas(sf.Name, fn)
	return tv{App(rs, fn, ts...), rty}
}

// utf8Fns: uninterpreted UTF-8 encoding of a rune (length and bytes) with the facts the contracts rely on: ASCII runes
// encode as themselves, every byte of a longer encoding is >= 0x80.
func utf8Fns(e *Enc) [2]string {
	l := e.declFun("utf8len", []Sort{SInt}, SInt)
	b := e.declFun("utf8byte", []Sort{SInt, SInt}, SInt)
	if len(e.facts[l]) == 0 {
		e.addFact(l, "(assert (forall ((r!u Int)) (! (and (<= 1 (utf8len r!u)) (<= (utf8len r!u) 4) (= (< r!u 128) (= (utf8len r!u) 1))) :pattern ((utf8len r!u)))))")
		e.addFact(b, "(assert (forall ((r!u Int) (i!u Int)) (! (and (<= 0 (utf8byte r!u i!u)) (<= (utf8byte r!u i!u) 255) (=> (and (<= 0 r!u) (< r!u 128) (= i!u 0)) (= (utf8byte r!u i!u) r!u)) (=> (and (>= r!u 128) (<= 0 i!u) (< i!u (utf8len r!u))) (>= (utf8byte r!u i!u) 128))) :pattern ((utf8byte r!u i!u)))))")
	}
	return [2]string{l, b}
}

// readSort: sort of a state variable named in a reads clause before it was touched by code.
func (f *Frame) readSort(name string) Sort {
	switch {
	case strings.HasPrefix(name, "H_"):
		// H_Type.field
		rest := name[2:]
		dot := strings.LastIndex(rest, ".")
		tn, fn := rest[:dot], rest[dot+1:]
		obj := f.p.pkg.Types.Scope().Lookup(tn)
		if obj != nil {
			if st, ok := structOf(obj.Type()); ok {
				for i := 0; i < st.NumFields(); i++ {
					if st.Field(i).Name() == fn {
						_, s := f.p.fieldArray(obj.Type(), i)
						return s
					}
				}
			}
		}
	case strings.HasPrefix(name, "SH_"):
		sfx := name[3:]
		if i := strings.Index(sfx, "$"); i >= 0 {
			sfx = sfx[:i]
		}
		return ArrSort(SInt, ArrSort(SInt, sortFromSuffix(sfx)))
	case strings.HasPrefix(name, "MH_"):
		parts := strings.SplitN(name[3:], "_", 2)
		return ArrSort(SInt, ArrSort(sortFromSuffix(parts[0]), sortFromSuffix(parts[1])))
	case strings.HasPrefix(name, "MD_"):
		parts := strings.SplitN(name[3:], "_", 2)
		return ArrSort(SInt, ArrSort(sortFromSuffix(parts[0]), SBool))
	case strings.HasPrefix(name, "#"):
		if kt, ok := f.p.ghostMaps[name]; ok {
			tvv, err := types.Eval(f.p.fset, f.p.pkg.Types, token.NoPos, kt)
			if err != nil {
				for _, file := range f.p.pkg.Syntax {
					if tvv, err = types.Eval(f.p.fset, f.p.pkg.Types, file.End()-1, kt); err == nil {
						break
					}
				}
			}
			if err == nil {
				vs := SInt
				if vt, ok := f.p.ghostVals[name]; ok {
					if tv2, err2 := types.Eval(f.p.fset, f.p.pkg.Types, token.NoPos, vt); err2 == nil {
						vs = f.p.sortOf(tv2.Type)
						f.enc.declSortOf(vs)
					}
				}
				return ArrSort(f.p.sortOf(tvv.Type), vs)
			}
		}
		return SInt
	}
	panic("cannot determine sort of state variable " + name)
}

func sortFromSuffix(s string) Sort {
	switch s {
	case "Bool":
		return SBool
	case "Int":
		return SInt
	case "F32":
		return SF32
	case "F64":
		return SF64
	case "Str":
		return SStr
	case "Iface":
		return SIface
	case "Slice":
		return SSlice
	}
	return Sort(s)
}

// useInstance: instantiate a lemma/axiom: "name(args)".
func (tr *Translator) useInstance(u *Clause) (out []string) {
	defer func() {
		if r := recover(); r != nil {
			if te, ok := r.(trErr); ok {
				panic(trErr{fmt.Sprintf("use %s: %s", u.Src, te.msg)})
			}
			panic(r)
		}
	}()
	c, ok := u.Expr.(*ECall)
	if !ok {
		// a plain formula: assumed fact (must be a tautology of the theory); reject
		tr.fail("use clause must name a lemma: %s", u.Src)
	}
	lm, ok := tr.f.p.lemmas[c.Fn]
	if !ok {
		tr.fail("unknown lemma %s", c.Fn)
	}
	if len(c.Args) != len(lm.Params) {
		tr.fail("lemma %s expects %d arguments", lm.Name, len(lm.Params))
	}
	saved := tr.bound
	nb := map[string]tv{}
	for k, v := range saved {
		nb[k] = v
	}
	for i, p := range lm.Params {
		a := tr.expr(c.Args[i])
		pt := tr.goType(p.Type)
		if a.t.Sort == "Nil" {
			a, _ = tr.coerceNil(a, tv{tr.f.enc.zero(tr.f.p.sortOf(pt)), pt})
		}
		if a.t.Sort != tr.f.p.sortOf(pt) {
			// the name resolved to a different variable of the same name at this program point (e.g. a boxed copy):
			// this instance does not apply here
			tr.fail("argument %d of %s has sort %s, want %s", i, lm.Name, a.t.Sort, tr.f.p.sortOf(pt))
		}
		a.ty = pt
		nb[p.Name] = a
	}
	tr.bound = nb
	body := tr.boolExpr(lm.Body)
	tr.bound = saved
	tr.f.p.usedLemmas[lm.Name] = true
	if lm.Proved == "definition" {
		tr.f.enc.assumed[fmt.Sprintf("axiom %s: definitional unfolding of a spec function (trusted)", lm.Name)] = true
	}
	return []string{"(assert " + body.S + ")"}
}

func (f *Frame) iterLoopOrdinal(rng ssa.Value) int {
	// the loop whose header block contains the Next of this iterator
	for _, b := range f.fn.Blocks {
		for _, in := range b.Instrs {
			if n, ok := in.(*ssa.Next); ok && n.Iter == rng {
				if li := f.loops[b]; li != nil {
					return li.ordinal
				}
				for _, li := range f.inLoop[b] {
					return li.ordinal
				}
			}
		}
	}
	return -1
}

// installAutoLemmas: global (separately proved) lemmas whose triggers mention spec function sfName
// become quantified axioms attached to its SMT symbol. They are quantified over their parameters and
// over every state variable they read, so they hold in all heap states.
func (tr *Translator) installAutoLemmas(sfName, fnSym string) {
	f := tr.f
	e := f.enc
	if e.autoDone == nil {
		e.autoDone = map[string]bool{}
	}
	if e.autoDone[sfName] {
		return
	}
	e.autoDone[sfName] = true
	var names []string
	for n, lm := range f.p.lemmas {
		if lm.Auto && strings.Contains(lm.Pats, sfName+"(") && (!lm.LemmaOnly || e.lemmaMode) {
			names = append(names, n)
		}
	}
	sort.Strings(names)
	for _, n := range names {
		lm := f.p.lemmas[n]
		savedUsed := e.symStateUsed
		e.symStateUsed = map[string]T{}
		st := State{"__symbolic": True}
		lt := &Translator{f: f, cur: st, old: st, allocOld: T{"|alloc!sv|", SInt}, bound: map[string]tv{}}
		var decl []string
		for _, prm := range lm.Params {
			ty := lt.goType(prm.Type)
			s := f.p.sortOf(ty)
			e.declSortOf(s)
			qcount++
			if s == SSlice {
				var parts [4]T
				for k, nm := range []string{"ptr", "off", "len", "cap"} {
					parts[k] = T{fmt.Sprintf("%s.%s!q%d", prm.Name, nm, qcount), SInt}
					decl = append(decl, fmt.Sprintf("(%s Int)", parts[k].S))
				}
				lt.bound[prm.Name] = tv{MkSlice(parts[0], parts[1], parts[2], parts[3]), ty}
				continue
			}
			v := T{fmt.Sprintf("%s!q%d", prm.Name, qcount), s}
			lt.bound[prm.Name] = tv{v, ty}
			decl = append(decl, fmt.Sprintf("(%s %s)", v.S, s))
		}
		body := lt.boolExpr(lm.Body)
		var pats []string
		for _, grp := range strings.Split(lm.Pats, ";") {
			var ts []string
			for _, ps := range splitTopLevel(grp) {
				pe, err := parseExpr(strings.TrimSpace(ps))
				if err != nil {
					tr.fail("lemma %s: bad trigger %q: %v", n, ps, err)
				}
				ts = append(ts, lt.expr(pe).t.S)
			}
			if len(ts) > 0 {
				pats = append(pats, ":pattern ("+strings.Join(ts, " ")+")")
			}
		}
		for _, v := range lt.symInnerOrder {
			decl = append(decl, fmt.Sprintf("(%s %s)", v.S, v.Sort))
		}
		var svs []string
		for k := range e.symStateUsed {
			svs = append(svs, k)
		}
		sort.Strings(svs)
		for _, k := range svs {
			v := e.symStateUsed[k]
			decl = append(decl, fmt.Sprintf("(%s %s)", v.S, v.Sort))
		}
		if _, ok := e.symStateUsed["alloc"]; !ok && strings.Contains(body.S, "|alloc!sv|") {
			decl = append(decl, "(|alloc!sv| Int)")
		}
		e.symStateUsed = savedUsed
		// drop bound variables that do not occur (e.g. ptr/cap of slice parameters): a trigger must cover all variables
		used := map[string]bool{}
		symbolsOf(body.S+" "+strings.Join(pats, " "), used)
		var keep []string
		for _, d := range decl {
			name := strings.Fields(strings.TrimPrefix(d, "("))[0]
			if used[name] {
				keep = append(keep, d)
			}
		}
		decl = keep
		ax := fmt.Sprintf("(assert (forall (%s) (! %s %s)))", strings.Join(decl, " "), body.S, strings.Join(pats, " "))
		e.addFact(fnSym, ax)
		f.p.usedLemmas[n] = true
		if lm.Proved == "definition" {
			e.assumed[fmt.Sprintf("axiom %s: definitional unfolding of a spec function (trusted)", n)] = true
		}
	}
}

func splitTopLevel(s string) []string {
	var parts []string
	depth, start := 0, 0
	for i, c := range s {
		switch c {
		case '(', '[', '{':
			depth++
		case ')', ']', '}':
			depth--
		case ',':
			if depth == 0 {
				parts = append(parts, s[start:i])
				start = i + 1
			}
		}
	}
	if strings.TrimSpace(s[start:]) != "" {
		parts = append(parts, s[start:])
	}
	return parts
}

// innerOf: the backing array (Array Int elem) of a slice term in the translator's state. In symbolic
// state (global lemmas) it is a bound variable of its own, one per slice term.
func (tr *Translator) innerOf(sl T, elem types.Type) T {
	f := tr.f
	es := f.p.sortOf(elem)
	f.enc.declSortOf(es)
	if _, sym := tr.state()["__symbolic"]; sym {
		if tr.symInner == nil {
			tr.symInner = map[string]T{}
		}
		if v, ok := tr.symInner[sl.S]; ok {
			return v
		}
		qcount++
		v := T{fmt.Sprintf("inner!q%d", qcount), ArrSort(SInt, es)}
		tr.symInner[sl.S] = v
		tr.symInnerOrder = append(tr.symInnerOrder, v)
		return v
	}
	as := ArrSort(SInt, ArrSort(SInt, es))
	return Select(tr.stVar(f.p.sliceArray(elem), as), SPtr(sl))
}

// atTerm: element access inner[off+i] through the uninterpreted accessor at_<sort> (axiomatised as the
// select), so quantifier triggers over slice elements contain no arithmetic.
func atTerm(e *Enc, es Sort, inner, off, i T) T {
	isort := ArrSort(SInt, es)
	fn := e.declFun("at_"+sortSuffix(es), []Sort{isort, SInt, SInt}, es)
	if len(e.facts[fn]) == 0 {
		e.addFact(fn, fmt.Sprintf("(assert (forall ((a!t %s) (o!t Int) (i!t Int)) (! (= (%s a!t o!t i!t) (select a!t (+ o!t i!t))) :pattern ((%s a!t o!t i!t)))))", isort, fn, fn))
	}
	return App(es, fn, inner, off, i)
}

// distributeImp splits P ==> (A && B && ...) into [P ==> A, P ==> B, ...] (recursively through nested ==>).
func distributeImp(e Expr) []Expr {
	switch b := e.(type) {
	case *EBinary:
		switch b.Op {
		case "&&":
			return append(distributeImp(b.X), distributeImp(b.Y)...)
		case "==>":
			rs := distributeImp(b.Y)
			if len(rs) <= 1 {
				return []Expr{e}
			}
			out := make([]Expr, len(rs))
			for i, r := range rs {
				out[i] = &EBinary{"==>", b.X, r}
			}
			return out
		}
	}
	return []Expr{e}
}

// tryUse: a use clause whose names do not resolve at this program point is skipped there.
func (tr *Translator) tryUse(u *Clause) (out []string) {
	defer func() {
		if r := recover(); r != nil {
			if _, ok := r.(trErr); ok {
				out = nil
				return
			}
			panic(r)
		}
	}()
	return tr.useInstance(u)
}


// reachingIn: the SSA value of source variable name at the entry of block b, when it is the same along every path:
// (value, nil, true), or (nil, T, true) for the zero value of a named result of type T that has not been assigned yet.
func (f *Frame) reachingIn(name string, b *ssa.BasicBlock) (ssa.Value, types.Type, bool) {
	type rv struct {
		v        ssa.Value
		zero     types.Type
		state    int // 0 not computed, 1 known, 2 conflict
	}
	same := func(a, c rv) bool { return a.v == c.v && a.zero == c.zero }
	last := map[*ssa.BasicBlock]ssa.Value{}
	for i := range f.names[name] {
		nr := &f.names[name][i]
		if !nr.addr {
			last[nr.block] = nr.val
		}
	}
	phiAt := map[*ssa.BasicBlock]*ssa.Phi{}
	for _, bb := range f.fn.Blocks {
		for _, in := range bb.Instrs {
			phi, ok := in.(*ssa.Phi)
			if !ok {
				break
			}
			if phi.Comment == name {
				phiAt[bb] = phi
			}
		}
	}
	in := map[*ssa.BasicBlock]rv{}
	out := map[*ssa.BasicBlock]rv{}
	entry := rv{state: 2}
	for _, prm := range f.fn.Params {
		if prm.Name() == name {
			entry = rv{v: prm, state: 1}
		}
	}
	if entry.state == 2 {
		res := f.fn.Signature.Results()
		for i := 0; i < res.Len(); i++ {
			if res.At(i).Name() == name {
				entry = rv{zero: res.At(i).Type(), state: 1}
			}
		}
	}
	for round := 0; round < 2*len(f.fn.Blocks)+2; round++ {
		changed := false
		for _, bb := range f.fn.Blocks {
			var nin rv
			switch {
			case phiAt[bb] != nil:
				nin = rv{v: phiAt[bb], state: 1}
			case len(bb.Preds) == 0:
				nin = entry
			default:
				for _, p := range bb.Preds {
					o := out[p]
					if o.state == 0 {
						continue
					}
					if o.state == 2 {
						nin = o
						break
					}
					if nin.state == 0 {
						nin = o
					} else if !same(nin, o) {
						nin = rv{state: 2}
						break
					}
				}
			}
			nout := nin
			if v, ok := last[bb]; ok {
				nout = rv{v: v, state: 1}
			}
			if in[bb] != nin || out[bb] != nout {
				in[bb], out[bb] = nin, nout
				changed = true
			}
		}
		if !changed {
			break
		}
	}
	r := in[b]
	if r.state != 1 {
		return nil, nil, false
	}
	return r.v, r.zero, true
}
