package main

import (
	"fmt"
	"sort"
	"strings"
	"go/constant"
	"go/token"
	"go/types"
	"math/big"

	"golang.org/x/tools/go/ssa"
)

func constBig(c *ssa.Const) (*big.Int, bool) {
	v := constant.ToInt(c.Value)
	if v.Kind() != constant.Int {
		return nil, false
	}
	if i, ok := constant.Int64Val(v); ok {
		return big.NewInt(i), true
	}
	bi, ok := new(big.Int).SetString(v.ExactString(), 10)
	return bi, ok
}

func constString(c *ssa.Const) string {
	if c.Value.Kind() == constant.String {
		return constant.StringVal(c.Value)
	}
	return c.Value.ExactString()
}

// tableTerm: lit[idx] as nested ite over the maximal runs of equal bytes (exact for 0 <= idx < len(lit)).
func tableTerm(lit string, idx T) T {
	type run struct {
		hi int // last index of the run
		b  byte
	}
	var runs []run
	for i := 0; i < len(lit); i++ {
		if len(runs) > 0 && runs[len(runs)-1].b == lit[i] {
			runs[len(runs)-1].hi = i
		} else {
			runs = append(runs, run{i, lit[i]})
		}
	}
	acc := IntLit(int64(runs[len(runs)-1].b))
	for k := len(runs) - 2; k >= 0; k-- {
		acc = Ite(Le(idx, IntLit(int64(runs[k].hi))), IntLit(int64(runs[k].b)), acc)
	}
	return acc
}

func isFloatSort(s Sort) bool { return s == SF32 || s == SF64 }

func (f *Frame) instr(in ssa.Instruction) {
	switch x := in.(type) {
	case *ssa.DebugRef:
		return
	case *ssa.Phi:
		return // handled at block entry
	case *ssa.Alloc:
		f.doAlloc(x)
	case *ssa.FieldAddr:
		f.doFieldAddr(x)
	case *ssa.Field:
		f.enc.note("%s: struct value field read abstracted", f.fname)
		f.freshVal(x)
	case *ssa.IndexAddr:
		f.doIndexAddr(x)
	case *ssa.Index:
		f.doIndex(x)
	case *ssa.UnOp:
		f.doUnOp(x)
	case *ssa.BinOp:
		f.doBinOp(x)
	case *ssa.Store:
		f.doStore(x)
	case *ssa.MakeInterface:
		f.setVal(x, f.box(x.X.Type(), f.val(x.X)))
	case *ssa.TypeAssert:
		f.doTypeAssert(x)
	case *ssa.ChangeType:
		f.vals[x] = f.val(x.X)
		if lv, ok := f.lvs[x.X]; ok {
			f.lvs[x] = lv
		}
	case *ssa.ChangeInterface:
		f.vals[x] = f.val(x.X)
	case *ssa.Convert:
		f.doConvert(x)
	case *ssa.MultiConvert:
		f.freshVal(x)
	case *ssa.SliceToArrayPointer:
		f.freshVal(x)
	case *ssa.Extract:
		ts, ok := f.tuples[x.Tuple]
		if !ok {
			panic(fmt.Sprintf("%s: extract from unknown tuple %s", f.fname, x.Tuple.Name()))
		}
		f.vals[x] = ts[x.Index]
	case *ssa.Lookup:
		f.doLookup(x)
	case *ssa.MapUpdate:
		f.doMapUpdate(x)
	case *ssa.MakeMap:
		r := f.newRef()
		mt := x.Type().Underlying().(*types.Map)
		h, d := f.p.mapArrays(mt)
		ks, vs := f.p.sortOf(mt.Key()), f.p.sortOf(mt.Elem())
		f.enc.declSortOf(vs)
		ds := ArrSort(SInt, ArrSort(ks, SBool))
		f.stSet(d, Store(f.stGet(d, ds), r, ConstArr(ArrSort(ks, SBool), False)))
		hs := ArrSort(SInt, ArrSort(ks, vs))
		f.stGet(h, hs)
		f.setVal(x, r)
	case *ssa.MakeSlice:
		f.doMakeSlice(x)
	case *ssa.Slice:
		f.doSlice(x)
	case *ssa.MakeClosure:
		f.setVal(x, f.newRef())
	case *ssa.Range:
		f.doRange(x)
	case *ssa.Next:
		f.doNext(x)
	case *ssa.Call:
		f.doCall(x, x)
	case *ssa.Defer:
		f.doDefer(x)
	case *ssa.Go:
		f.enc.note("%s: go statement ignored", f.fname)
	case *ssa.RunDefers:
		f.runDefers(x)
	case *ssa.Panic:
		f.oblige("panic", "explicit-panic", x.Pos(), False)
	case *ssa.Return, *ssa.If, *ssa.Jump:
		// control flow handled by the block driver
	case *ssa.Select, *ssa.Send, *ssa.MakeChan:
		f.enc.note("%s: channel operation unsupported", f.fname)
		if v, ok := in.(ssa.Value); ok {
			f.freshVal(v)
		}
	default:
		panic(fmt.Sprintf("%s: unsupported instruction %T: %s", f.fname, in, in))
	}
}

func (f *Frame) doAlloc(x *ssa.Alloc) {
	elem := x.Type().Underlying().(*types.Pointer).Elem()
	r := f.newRef()
	f.setVal(x, r)
	f.zeroInit(f.vals[x], elem)
	if n, ok := elem.(*types.Named); ok && n.Obj().Pkg() != nil && (n.Obj().Pkg().Path() == "bytes" && n.Obj().Name() == "Buffer" || n.Obj().Pkg().Path() == "strings" && n.Obj().Name() == "Builder") {
		// a zero buffer is empty
		sort := ArrSort(SInt, SInt)
		f.stSet("BUF_len", Store(f.stGet("BUF_len", sort), f.vals[x], Zero))
	}
	switch elem.Underlying().(type) {
	case *types.Struct:
		f.lvs[x] = &LV{kind: lvStruct, idx: f.vals[x], fresh: true}
	case *types.Array:
		f.lvs[x] = &LV{kind: lvArray, idx: f.vals[x], fresh: true}
	default:
		s := f.p.sortOf(elem)
		f.lvs[x] = &LV{kind: lvCell, arr: f.p.cellArray(elem), asort: ArrSort(SInt, s), idx: f.vals[x], fresh: true}
	}
}

func (f *Frame) nilCheck(v ssa.Value, pos token.Pos, what string) {
	if _, ok := v.(*ssa.Alloc); ok {
		return
	}
	if _, ok := v.(*ssa.FieldAddr); ok {
		return
	}
	if _, ok := v.(*ssa.IndexAddr); ok {
		return
	}
	if _, ok := v.(*ssa.Global); ok {
		return
	}
	t := f.val(v)
	if t.Sort == SInt {
		f.oblige("panic", "nil-deref("+what+")", pos, Not(Eq(t, Zero)))
	}
}

func (f *Frame) doFieldAddr(x *ssa.FieldAddr) {
	st := x.X.Type().Underlying().(*types.Pointer).Elem()
	s, _ := structOf(st)
	f.nilCheck(x.X, x.Pos(), s.Field(x.Field).Name())
	base := f.val(x.X)
	lv, addr := f.fieldLV(base, st, x.Field)
	if blv, ok := f.lvs[x.X]; ok {
		lv.fresh = blv.fresh
	}
	_, vs := arrParts(lv.asort)
	f.enc.declSortOf(vs)
	if isMutex(s.Field(x.Field).Type()) {
		addr = f.p.muAddr(f.enc, base, st, x.Field)
	}
	f.setVal(x, addr)
	if _, ok := structOf(s.Field(x.Field).Type()); ok {
		// pointer to an embedded / nested struct
		f.lvs[x] = &LV{kind: lvStruct, idx: f.vals[x], fresh: lv.fresh}
		return
	}
	f.lvs[x] = lv
}

func (f *Frame) doIndexAddr(x *ssa.IndexAddr) {
	idx := f.val(x.Index)
	switch xt := x.X.Type().Underlying().(type) {
	case *types.Slice:
		s := f.val(x.X)
		f.oblige("panic", "index", x.Pos(), And(Le(Zero, idx), Lt(idx, SLen(s))))
		es := f.p.sortOf(xt.Elem())
		f.enc.declSortOf(es)
		f.lvs[x] = &LV{kind: lvElem, arr: f.p.sliceArray(xt.Elem()), asort: ArrSort(SInt, ArrSort(SInt, es)), idx: SPtr(s), idx2: Add(SOff(s), idx), off: SOff(s), pos: idx}
		f.setVal(x, App(SInt, "elemaddr", SPtr(s), Add(SOff(s), idx)))
		f.enc.declFun("elemaddr", []Sort{SInt, SInt}, SInt)
	case *types.Pointer:
		at := xt.Elem().Underlying().(*types.Array)
		f.nilCheck(x.X, x.Pos(), "array")
		p := f.val(x.X)
		f.oblige("panic", "index", x.Pos(), And(Le(Zero, idx), Lt(idx, IntLit(at.Len()))))
		es := f.p.sortOf(at.Elem())
		f.enc.declSortOf(es)
		lv := &LV{kind: lvElem, arr: f.p.sliceArray(at.Elem()), asort: ArrSort(SInt, ArrSort(SInt, es)), idx: p, idx2: idx, off: Zero, pos: idx}
		if blv, ok := f.lvs[x.X]; ok {
			lv.fresh = blv.fresh
		}
		f.lvs[x] = lv
		f.setVal(x, App(SInt, "elemaddr", p, idx))
		f.enc.declFun("elemaddr", []Sort{SInt, SInt}, SInt)
	default:
		panic("IndexAddr on " + x.X.Type().String())
	}
}

func (f *Frame) doIndex(x *ssa.Index) {
	idx := f.val(x.Index)
	switch xt := x.X.Type().Underlying().(type) {
	case *types.Basic: // string
		s := f.val(x.X)
		f.oblige("panic", "index", x.Pos(), And(Le(Zero, idx), Lt(idx, App(SInt, "strlen", s))))
		v := f.setVal(x, App(SInt, "byteAt", s, idx))
		f.enc.factAbout(v, And(Le(Zero, v), Le(v, IntLit(255))))
		if c, ok := x.X.(*ssa.Const); ok && c.Value != nil && c.Value.Kind() == constant.String {
			// a constant table indexed by a variable: the exact byte as a chain over the runs of equal bytes
			if lit := constant.StringVal(c.Value); len(lit) > 16 && len(lit) <= 512 {
				f.enc.factAbout(v, Implies(And(Le(Zero, idx), Lt(idx, IntLit(int64(len(lit))))), Eq(v, tableTerm(lit, idx))))
			}
		}
	case *types.Array:
		// array value (e.g. a package-level table loaded by value)
		f.oblige("panic", "index", x.Pos(), And(Le(Zero, idx), Lt(idx, IntLit(xt.Len()))))
		a := f.val(x.X)
		es := f.p.sortOf(xt.Elem())
		fn := f.enc.declFun("arrget_"+sortSuffix(a.Sort)+"_"+sortSuffix(es), []Sort{a.Sort, SInt}, es)
		f.setVal(x, App(es, fn, a, idx))
	default:
		f.freshVal(x)
	}
}

func (f *Frame) doUnOp(x *ssa.UnOp) {
	switch x.Op {
	case token.MUL:
		f.nilCheck(x.X, x.Pos(), "*")
		if pt, ok := x.X.Type().Underlying().(*types.Pointer); ok {
			if _, isStruct := structOf(pt.Elem()); isStruct && f.p.ownStruct(pt.Elem()) {
				f.structs[x] = f.loadStruct(f.val(x.X), pt.Elem())
				f.vals[x] = f.enc.declConst(f.enc.fresh(f.sym(x.Name())), f.p.sortOf(x.Type()))
				f.enc.declSortOf(f.vals[x].Sort)
				return
			}
		}
		lv := f.lvOf(x.X)
		f.guardCheck(lv, x.Pos(), false)
		v := f.setVal(x, f.load(lv, x.Type()))
		if g, ok := x.X.(*ssa.Global); ok && g.Pkg != nil && g.Pkg.Pkg.Path() == "io" && g.Name() == "EOF" {
			// assumed: nobody assigns nil to the sentinel io.EOF
			f.enc.note("io.EOF assumed non-nil")
			f.enc.factAbout(v, Not(Eq(App(SInt, "tag", v), Zero)))
		}
		f.loadFactsB(v, x.Type(), f.lvBound(lv))
		f.dataInvFacts(v, x.Type(), lv, x.X)
	case token.NOT:
		f.setVal(x, Not(f.val(x.X)))
	case token.SUB:
		v := f.val(x.X)
		if isFloatSort(v.Sort) {
			f.setVal(x, App(v.Sort, "fp.neg", v))
		} else {
			f.setVal(x, f.wrapIf(App(SInt, "-", v), x.Type(), x.Pos()))
		}
	case token.XOR:
		f.setVal(x, f.wrapIf(Sub(App(SInt, "-", f.val(x.X)), IntLit(1)), x.Type(), x.Pos()))
	case token.ARROW:
		f.enc.note("%s: channel receive unsupported", f.fname)
		f.freshVal(x)
	default:
		panic("unop " + x.Op.String())
	}
}

// loadFacts: facts about values read from the heap (references predate the allocation counter).
func (f *Frame) loadFacts(v T, t types.Type) {
	f.loadFactsB(v, t, f.alloc())
}

func (f *Frame) loadFactsB(v T, t types.Type, bound T) {
	switch t.Underlying().(type) {
	case *types.Pointer, *types.Map:
		f.enc.factAbout(v, Le(v, bound))
	case *types.Slice:
		f.enc.factAbout(v, Le(SPtr(v), bound))
	case *types.Interface:
		// a reference held in an interface value denotes an existing object
		f.enc.factAbout(v, Implies(App(SBool, "ptrlike", App(SInt, "tag", v)), And(Le(Zero, App(SInt, "pl_Int", v)), Le(App(SInt, "pl_Int", v), bound))))
		f.enc.factAbout(v, Implies(App(SBool, "slicelike", App(SInt, "tag", v)), Le(SPtr(App(SSlice, "pl_Slice", v)), bound)))
	}
}

// dataInvFacts: declared (trusted) data-structure invariants of loaded fields and slice elements.
func (f *Frame) dataInvFacts(v T, t types.Type, lv *LV, addr ssa.Value) {
	var cl *Clause
	var what string
	switch lv.kind {
	case lvField:
		what = strings.TrimPrefix(lv.arr, "H_")
		cl = f.p.fieldInvs[what]
	case lvElem:
		if ia, ok := addr.(*ssa.IndexAddr); ok {
			if st, ok := ia.X.Type().Underlying().(*types.Slice); ok {
				what = "[]" + f.p.typeNameOrString(st.Elem())
				cl = f.p.elemInvs[what]
			}
		}
	}
	if tcl := f.p.typeInvs[f.p.typeNameOrString(t)]; tcl != nil {
		tr := &Translator{f: f, cur: f.st, old: f.st, bound: map[string]tv{"v": {v, t}}}
		f.enc.factAbout(v, tr.boolExpr(tcl.Expr))
		f.enc.assumed["data-structure invariant (trusted): values of type "+f.p.typeNameOrString(t)+": "+tcl.Src] = true
	}
	if cl == nil {
		return
	}
	tr := &Translator{f: f, cur: f.st, old: f.st, bound: map[string]tv{"v": {v, t}}}
	f.enc.factAbout(v, tr.boolExpr(cl.Expr))
	f.enc.assumed["data-structure invariant (trusted, established by the parsers): "+what+": "+cl.Src] = true
}

func (p *Program) typeNameOrString(t types.Type) string {
	if ptr, ok := t.(*types.Pointer); ok {
		return "*" + p.typeNameOrString(ptr.Elem())
	}
	if _, ok := t.(*types.Named); ok {
		return p.typeName(t)
	}
	return types.TypeString(t, nil)
}

func (f *Frame) lvBound(lv *LV) T {
	switch lv.kind {
	case lvField, lvCell, lvElem, lvGlobal:
		return f.boundOf(f.stGet(lv.arr, lv.asort))
	}
	return f.alloc()
}

func (f *Frame) wrapIf(t T, ty types.Type, pos token.Pos) T {
	b, ok := ty.Underlying().(*types.Basic)
	if !ok {
		return t
	}
	r, ok := rangeOf(b)
	if !ok {
		return t
	}
	if r.bits == 64 {
		// mathematical; overflow obligation
		if f.checks("overflow") {
			f.oblige("overflow", "int64", pos, inRange(t, r))
		} else {
			f.enc.assumed["64-bit integer arithmetic treated as mathematical (no wrap-around) in "+f.topName()] = true
		}
		return t
	}
	return wrapTo(t, r)
}

func (f *Frame) checks(class string) bool {
	if f.con == nil {
		return false
	}
	_, ok := f.con.Checks[class]
	return ok
}

// checkProps: the properties an automatic check class is claimed for by the contract of the function being verified
// (not of an inlined callee)
func (f *Frame) checkProps(class string) ([]string, bool) {
	if f.con == nil || f.oblPfx != "" {
		return nil, false
	}
	p, ok := f.con.Checks[class]
	return p, ok
}

func tdiv(x, y T) T {
	// Go's truncated division on mathematical integers
	return mk(SInt, "(ite (>= %[1]s 0) (ite (> %[2]s 0) (div %[1]s %[2]s) (- (div %[1]s (- %[2]s)))) (ite (> %[2]s 0) (- (div (- %[1]s) %[2]s)) (div (- %[1]s) (- %[2]s))))", x.S, y.S)
}

func (f *Frame) doBinOp(x *ssa.BinOp) {
	a, b := f.val(x.X), f.val(x.Y)
	xt := x.X.Type().Underlying()
	switch x.Op {
	case token.EQL, token.NEQ:
		var eq T
		switch {
		case isFloatSort(a.Sort):
			eq = App(SBool, "fp.eq", a, b)
		case a.Sort == SSlice:
			// only comparison with nil is legal
			if b.S == NilSlice.S {
				eq = Eq(SPtr(a), Zero)
			} else {
				eq = Eq(SPtr(b), Zero)
			}
		case a.Sort == SIface:
			eq = f.ifaceEq(x, a, b)
		default:
			eq = Eq(a, b)
		}
		if x.Op == token.NEQ {
			eq = Not(eq)
		}
		f.setVal(x, eq)
		return
	case token.LSS, token.LEQ, token.GTR, token.GEQ:
		var r T
		switch {
		case isFloatSort(a.Sort):
			op := map[token.Token]string{token.LSS: "fp.lt", token.LEQ: "fp.leq", token.GTR: "fp.gt", token.GEQ: "fp.geq"}[x.Op]
			r = App(SBool, op, a, b)
		case a.Sort == SStr:
			f.enc.declFun("strlt", []Sort{SStr, SStr}, SBool)
			switch x.Op {
			case token.LSS:
				r = App(SBool, "strlt", a, b)
			case token.GTR:
				r = App(SBool, "strlt", b, a)
			case token.LEQ:
				r = Not(App(SBool, "strlt", b, a))
			default:
				r = Not(App(SBool, "strlt", a, b))
			}
		default:
			op := map[token.Token]string{token.LSS: "<", token.LEQ: "<=", token.GTR: ">", token.GEQ: ">="}[x.Op]
			r = App(SBool, op, a, b)
		}
		f.setVal(x, r)
		return
	}
	if a.Sort == SBool {
		switch x.Op {
		case token.AND, token.LAND:
			f.setVal(x, And(a, b))
		case token.OR, token.LOR:
			f.setVal(x, Or(a, b))
		case token.XOR:
			f.setVal(x, Not(Eq(a, b)))
		default:
			panic("bool binop " + x.Op.String())
		}
		return
	}
	if a.Sort == SStr && x.Op == token.ADD {
		v := f.setVal(x, App(SStr, "strcat", a, b))
		f.enc.factAbout(v, Eq(App(SInt, "strlen", v), Add(App(SInt, "strlen", a), App(SInt, "strlen", b))))
		return
	}
	if isFloatSort(a.Sort) {
		op := map[token.Token]string{token.ADD: "fp.add", token.SUB: "fp.sub", token.MUL: "fp.mul", token.QUO: "fp.div"}[x.Op]
		if op == "" {
			panic("float binop " + x.Op.String())
		}
		f.setVal(x, mk(a.Sort, "(%s RNE %s %s)", op, a.S, b.S))
		return
	}
	_ = xt
	var r T
	switch x.Op {
	case token.ADD:
		r = f.wrapIf(Add(a, b), x.Type(), x.Pos())
	case token.SUB:
		r = f.wrapIf(Sub(a, b), x.Type(), x.Pos())
	case token.MUL:
		_, ca := constInt(a)
		_, cb := constInt(b)
		if !ca && !cb && a.Sort == SInt {
			// product of two variables: kept out of the solvers' (incomplete) non-linear arithmetic; only its sign
			// behaviour is known
			fn := f.enc.declFun("imul", []Sort{SInt, SInt}, SInt)
			m := f.enc.define(f.sym("mul"), App(SInt, fn, a, b))
			f.enc.factAbout(m, And(Implies(And(Le(Zero, a), Le(Zero, b)), Le(Zero, m)), Implies(Or(Eq(a, Zero), Eq(b, Zero)), Eq(m, Zero))))
			f.enc.assumed["a product of two variables is an uninterpreted value constrained only by its sign (non-negative operands give a non-negative product, a zero operand gives zero)"] = true
			r = f.wrapIf(m, x.Type(), x.Pos())
		} else {
			r = f.wrapIf(App(SInt, "*", a, b), x.Type(), x.Pos())
		}
	case token.QUO:
		f.oblige("panic", "div-by-zero", x.Pos(), Not(Eq(b, Zero)))
		r = f.wrapIf(tdiv(a, b), x.Type(), x.Pos())
	case token.REM:
		f.oblige("panic", "div-by-zero", x.Pos(), Not(Eq(b, Zero)))
		r = Sub(a, App(SInt, "*", b, tdiv(a, b)))
	case token.AND:
		r = f.bitAnd(a, b, x)
	case token.OR:
		r = App(SInt, "bitor", a, b)
	case token.XOR:
		r = App(SInt, "bitxor", a, b)
	case token.AND_NOT:
		r = App(SInt, "bitand", a, App(SInt, "bitxor", b, IntLit(-1)))
	case token.SHL:
		if c, ok := x.Y.(*ssa.Const); ok {
			if n, ok := constBig(c); ok && n.IsInt64() && n.Int64() < 63 {
				r = f.wrapShift(App(SInt, "*", a, BigLit(new(big.Int).Lsh(big.NewInt(1), uint(n.Int64())))), x.Type())
				break
			}
		}
		r = App(SInt, "shl", a, b)
	case token.SHR:
		if c, ok := x.Y.(*ssa.Const); ok {
			if n, ok := constBig(c); ok && n.IsInt64() && n.Int64() < 63 {
				// arithmetic shift = floor division
				r = mk(SInt, "(div %s %s)", a.S, new(big.Int).Lsh(big.NewInt(1), uint(n.Int64())).String())
				break
			}
		}
		r = App(SInt, "shr", a, b)
	default:
		panic("int binop " + x.Op.String())
	}
	v := f.setVal(x, r)
	_ = v
}

func (f *Frame) wrapShift(t T, ty types.Type) T {
	if b, ok := ty.Underlying().(*types.Basic); ok {
		if r, ok := rangeOf(b); ok {
			return wrapTo(t, r)
		}
	}
	return t
}

func (f *Frame) bitAnd(a, b T, x *ssa.BinOp) T {
	// x & (2^k-1) == x mod 2^k for non-negative... for any x in two's complement.
	if c, ok := x.Y.(*ssa.Const); ok {
		if n, ok := constBig(c); ok && n.Sign() >= 0 {
			np1 := new(big.Int).Add(n, big.NewInt(1))
			if np1.BitLen() > 0 && new(big.Int).And(np1, n).Sign() == 0 { // n+1 power of two
				return mk(SInt, "(mod %s %s)", a.S, np1.String())
			}
		}
	}
	return App(SInt, "bitand", a, b)
}

func (f *Frame) ifaceEq(x *ssa.BinOp, a, b T) T {
	if a.S == "nilI" {
		return Eq(App(SInt, "tag", b), Zero)
	}
	if b.S == "nilI" {
		return Eq(App(SInt, "tag", a), Zero)
	}
	// comparing two dynamic values panics when both hold the same uncomparable type
	if f.p.comparable[f.p.typeName(x.X.Type())] || f.p.comparable[f.p.typeName(x.Y.Type())] {
		f.enc.assumed["dynamic types of interface "+f.p.typeName(x.X.Type())+" are comparable (pointer types)"] = true
		return Eq(a, b)
	}
	if f.checks("panic") {
		unc := f.uncomparableTag(App(SInt, "tag", a))
		f.oblige("panic", "uncomparable-iface-compare", x.Pos(), Not(And(Eq(App(SInt, "tag", a), App(SInt, "tag", b)), unc)))
	}
	return Eq(a, b)
}

// uncomparableTag: the dynamic type is a slice, map or func type.
func (f *Frame) uncomparableTag(tg T) T {
	return App(SBool, "uncomparable", tg)
}

func (p *Program) tagKindAsserts() string {
	var b strings.Builder
	for i, t := range p.tagTypes {
		unc, ptr := "false", "false"
		switch t.Underlying().(type) {
		case *types.Slice, *types.Map, *types.Signature:
			unc = "true"
		}
		switch t.Underlying().(type) {
		case *types.Pointer, *types.Map, *types.Signature, *types.Chan:
			ptr = "true"
		}
		sl := "false"
		if _, ok := t.Underlying().(*types.Slice); ok {
			sl = "true"
		}
		fmt.Fprintf(&b, "(assert (= (uncomparable %d) %s))\n(assert (= (ptrlike %d) %s))\n(assert (= (slicelike %d) %s))\n", i+1, unc, i+1, ptr, i+1, sl)
	}
	// the nil interface (tag 0) has no dynamic type
	b.WriteString("(assert (not (slicelike 0)))\n(assert (forall ((t!k Int)) (! (not (and (ptrlike t!k) (slicelike t!k))) :pattern ((slicelike t!k)))))\n")
	// an interface value holding a reference (pointer, map, func, chan) is determined by its dynamic type and the reference
	b.WriteString("(assert (forall ((x!e Iface)) (! (=> (ptrlike (tag x!e)) (= x!e (box_Int (tag x!e) (pl_Int x!e)))) :pattern ((pl_Int x!e)))))\n")
	return b.String()
}

func (f *Frame) doStore(x *ssa.Store) {
	f.nilCheck(x.Addr, x.Pos(), "store")
	if leaves, ok := f.structs[x.Val]; ok {
		// struct value copy: field by field (frame checks apply per leaf through the address)
		if f.frameHook != nil {
			for _, l := range leaves {
				blv := f.lvs[x.Addr]
				fresh := blv != nil && blv.fresh
				f.frameHook(f, &LV{kind: lvField, arr: l.arr, asort: l.asort, idx: Add(f.val(x.Addr), IntLit(l.off)), fresh: fresh}, x.Addr, x.Pos())
			}
		}
		f.storeStruct(f.val(x.Addr), leaves)
		return
	}
	lv := f.lvOf(x.Addr)
	f.frameCheck(lv, x.Addr, x.Pos())
	f.guardCheck(lv, x.Pos(), true)
	f.store(lv, f.val(x.Val))
}

// guardCheck: class `lock` obligation for an access to a field declared `guarded T.f by mu`: the mutex of the
// same object is held by the executing thread. Objects allocated by this function and not yet published are exempt.
func (f *Frame) guardCheck(lv *LV, pos token.Pos, write bool) {
	if lv == nil || lv.kind != lvField || lv.fresh || !f.checks("lock") {
		return
	}
	g, ok := f.p.guards[lv.arr]
	if !ok {
		return
	}
	held := f.stGet("held", ArrSort(SInt, SBool))
	mu := f.p.muAddr(f.enc, lv.idx, g.st, g.muIdx)
	kind := "read"
	if write {
		kind = "write"
	}
	f.oblige("lock", "guarded-"+kind+"("+lv.arr+")", pos, Select(held, mu))
}

// ---- interfaces ----

func (f *Frame) plFun(s Sort) string {
	name := "pl_" + sortSuffix(s)
	switch s {
	case SInt, SBool, SF32, SF64, SStr, SSlice:
		return name
	}
	f.enc.declSortOf(s)
	return f.enc.declFun(name, []Sort{SIface}, s)
}

func (f *Frame) boxFun(s Sort) string {
	name := "box_" + sortSuffix(s)
	switch s {
	case SInt, SBool, SF32, SF64, SStr, SSlice:
		return name
	}
	f.enc.declSortOf(s)
	return f.enc.declFun(name, []Sort{SInt, s}, SIface)
}

func (f *Frame) box(t types.Type, v T) T {
	if v.Sort == SIface {
		return v
	}
	return boxTerm(f.enc, f.p, t, v)
}

func boxTerm(e *Enc, p *Program, t types.Type, v T) T {
	tg := p.tagOf(t)
	var bf, pf string
	switch v.Sort {
	case SInt, SBool, SF32, SF64, SStr, SSlice:
		bf, pf = "box_"+sortSuffix(v.Sort), "pl_"+sortSuffix(v.Sort)
	default:
		e.declSortOf(v.Sort)
		bf = e.declFun("box_"+sortSuffix(v.Sort), []Sort{SInt, v.Sort}, SIface)
		pf = e.declFun("pl_"+sortSuffix(v.Sort), []Sort{SIface}, v.Sort)
	}
	b := App(SIface, bf, IntLit(int64(tg)), v)
	sym := e.define("box", b)
	e.factAbout(sym, And(Eq(App(SInt, "tag", sym), IntLit(int64(tg))), Eq(App(v.Sort, pf, sym), v)))
	return sym
}

func (f *Frame) isType(v T, t types.Type) T {
	return isTypeTerm(f.enc, f.p, v, t)
}

func isTypeTerm(e *Enc, p *Program, v T, t types.Type) T {
	if it, ok := t.Underlying().(*types.Interface); ok {
		if it.NumMethods() == 0 {
			return Not(Eq(App(SInt, "tag", v), Zero))
		}
		id := p.ifaceID(t)
		p.implFacts(e, t, id)
		return And(Not(Eq(App(SInt, "tag", v), Zero)), App(SBool, "impl", App(SInt, "tag", v), IntLit(int64(id))))
	}
	return Eq(App(SInt, "tag", v), IntLit(int64(p.tagOf(t))))
}

// implFacts: remember the interface; the facts impl(tag, id) for every registered concrete type
// are emitted with each query that mentions impl.
func (p *Program) implFacts(e *Enc, t types.Type, id int) {
	if p.ifaceIDs == nil {
		p.ifaceIDs = map[int]types.Type{}
	}
	p.ifaceIDs[id] = t
}

func (p *Program) implAsserts() string {
	var b strings.Builder
	var ids []int
	for id := range p.ifaceIDs {
		ids = append(ids, id)
	}
	sort.Ints(ids)
	for _, id := range ids {
		it := p.ifaceIDs[id].Underlying().(*types.Interface)
		for i, ct := range p.tagTypes {
			if _, isI := ct.Underlying().(*types.Interface); isI {
				continue
			}
			v := "false"
			if types.Implements(ct, it) {
				v = "true"
			}
			fmt.Fprintf(&b, "(assert (= (impl %d %d) %s))\n", i+1, id, v)
		}
	}
	return b.String()
}

func (f *Frame) doTypeAssert(x *ssa.TypeAssert) {
	v := f.val(x.X)
	ok := f.isType(v, x.AssertedType)
	var val T
	if _, isI := x.AssertedType.Underlying().(*types.Interface); isI {
		val = v
	} else {
		s := f.p.sortOf(x.AssertedType)
		val = App(s, f.plFun(s), v)
	}
	if x.CommaOk {
		okSym := f.enc.define(f.sym(x.Name()+"_ok"), ok)
		var valSym T
		if val.Sort == SIface {
			valSym = f.enc.define(f.sym(x.Name()+"_v"), Ite(okSym, val, NilI))
		} else {
			// value is the zero value when !ok
			valSym = f.enc.define(f.sym(x.Name()+"_v"), Ite(okSym, val, f.enc.zero(val.Sort)))
			f.enc.factAbout(valSym, Implies(okSym, Eq(v, App(SIface, f.boxFun(val.Sort), IntLit(int64(f.p.tagOf(x.AssertedType))), val))))
		}
		f.typeFacts(valSym, x.AssertedType)
		f.tuples[x] = []T{valSym, okSym}
		return
	}
	f.oblige("panic", "type-assert", x.Pos(), ok)
	sym := f.setVal(x, val)
	if val.Sort != SIface {
		f.enc.factAbout(sym, Implies(ok, Eq(v, App(SIface, f.boxFun(val.Sort), IntLit(int64(f.p.tagOf(x.AssertedType))), sym))))
	}
}

// ---- conversions ----

func (f *Frame) doConvert(x *ssa.Convert) {
	v := f.val(x.X)
	from, to := x.X.Type().Underlying(), x.Type().Underlying()
	fb, fok := from.(*types.Basic)
	tb, tok := to.(*types.Basic)
	if fok && tok {
		switch {
		case fb.Info()&types.IsInteger != 0 && tb.Info()&types.IsInteger != 0:
			fr, _ := rangeOf(fb)
			tr, _ := rangeOf(tb)
			if fr.lo.Cmp(tr.lo) >= 0 && fr.hi.Cmp(tr.hi) <= 0 {
				f.vals[x] = v
			} else {
				f.setVal(x, wrapTo(v, tr))
			}
			return
		case fb.Info()&types.IsInteger != 0 && tb.Info()&types.IsFloat != 0:
			f.setVal(x, f.intToFloat(v, f.p.sortOf(x.Type())))
			return
		case fb.Info()&types.IsFloat != 0 && tb.Info()&types.IsInteger != 0:
			tr, _ := rangeOf(tb)
			f.setVal(x, f.floatToInt(v, tr))
			return
		case fb.Info()&types.IsFloat != 0 && tb.Info()&types.IsFloat != 0:
			s := f.p.sortOf(x.Type())
			if s == v.Sort {
				f.vals[x] = v
				return
			}
			eb, sb := 11, 53
			if s == SF32 {
				eb, sb = 8, 24
			}
			f.setVal(x, mk(s, "((_ to_fp %d %d) RNE %s)", eb, sb, v.S))
			return
		case fb.Info()&types.IsString != 0 && tb.Info()&types.IsString != 0:
			f.vals[x] = v
			return
		case fb.Info()&types.IsInteger != 0 && tb.Info()&types.IsString != 0:
			fn := f.enc.declFun("rune2str", []Sort{SInt}, SStr)
			f.setVal(x, App(SStr, fn, v))
			return
		}
	}
	// string <-> []byte / []rune, pointers, unsafe
	switch {
	case v.Sort == SStr && f.p.sortOf(x.Type()) == SSlice:
		st, _ := x.Type().Underlying().(*types.Slice)
		isBytes := st != nil && f.p.sortOf(st.Elem()) == SInt
		if b, ok := st.Elem().Underlying().(*types.Basic); !ok || b.Kind() != types.Uint8 {
			isBytes = false
		}
		if isBytes {
			// []byte(s): a fresh array holding exactly the bytes of s
			ref := f.newRef()
			arr := f.p.sliceArray(st.Elem())
			as := ArrSort(SInt, ArrSort(SInt, SInt))
			na := f.enc.declConst(f.enc.fresh(f.sym("strbytes")), ArrSort(SInt, SInt))
			f.stSet(arr, Store(f.stGet(arr, as), ref, na))
			if c, ok := x.X.(*ssa.Const); ok && c.Value != nil && c.Value.Kind() == constant.String && len(constant.StringVal(c.Value)) <= 64 {
				lit := constant.StringVal(c.Value)
				for i := 0; i < len(lit); i++ {
					f.enc.factAbout(na, Eq(Select(na, IntLit(int64(i))), IntLit(int64(lit[i]))))
				}
				n := IntLit(int64(len(lit)))
				f.setVal(x, MkSlice(ref, Zero, n, n))
				return
			}
			n := App(SInt, "strlen", v)
			f.enc.addFact(na.S, fmt.Sprintf("(assert (forall ((i!s Int)) (! (=> (and (<= 0 i!s) (< i!s %s)) (= (select %s i!s) (byteAt %s i!s))) :pattern ((select %s i!s)))))", n.S, na.S, v.S, na.S))
			f.setVal(x, MkSlice(ref, Zero, n, n))
			return
		}
		r := f.freshVal(x)
		f.enc.factAbout(r, And(Eq(SLen(r), App(SInt, "strlen", v)), Lt(f.alloc(), SPtr(r))))
		f.bumpAlloc(SPtr(r))
		f.enc.assumed["[]rune(string) yields an unconstrained fresh slice of equal length"] = true
	case v.Sort == SSlice && f.p.sortOf(x.Type()) == SStr:
		r := f.freshVal(x)
		f.enc.factAbout(r, Eq(App(SInt, "strlen", r), SLen(v)))
		f.enc.assumed["string([]byte) yields an unconstrained string of equal length"] = true
	default:
		if f.p.sortOf(x.Type()) == v.Sort {
			f.vals[x] = v
		} else {
			f.freshVal(x)
		}
	}
}

// intToFloat: deterministic uninterpreted conversion with ground facts (finite; exact on literals).
func (f *Frame) intToFloat(v T, s Sort) T {
	return intToFloat(f.enc, v, s)
}

func intToFloat(e *Enc, v T, s Sort) T {
	name := "i2f64"
	if s == SF32 {
		name = "i2f32"
	}
	fn := e.declFun(name, []Sort{SInt}, s)
	t := App(s, fn, v)
	sym := e.define("i2f", t)
	e.factAbout(sym, mk(SBool, "(and (not (fp.isNaN %[1]s)) (not (fp.isInfinite %[1]s)) (fp.eq (fp.roundToIntegral RTZ %[1]s) %[1]s))", sym.S))
	return sym
}

func fpPow2(s Sort, neg bool, k int) T {
	// +-2^k as a literal of sort s
	sign := "#b0"
	if neg {
		sign = "#b1"
	}
	if s == SF32 {
		return T{fmt.Sprintf("(fp %s #b%08b #b%023b)", sign, 127+k, 0), s}
	}
	return T{fmt.Sprintf("(fp %s #b%011b #b%052b)", sign, 1023+k, 0), s}
}

// floatToInt: deterministic uninterpreted conversion; when the truncated value is representable the
// result converts back (in the source float type) to exactly that truncated value.
func (f *Frame) floatToInt(v T, tr intRange) T {
	return floatToInt(f.enc, v, tr)
}

func floatToInt(e *Enc, v T, tr intRange) T {
	sfx := "64"
	if v.Sort == SF32 {
		sfx = "32"
	}
	sg := "s"
	if !tr.signed {
		sg = "u"
	}
	fn := e.declFun(fmt.Sprintf("f%s_to_%s%d", sfx, sg, tr.bits), []Sort{v.Sort}, SInt)
	sym := e.define("f2i", App(SInt, fn, v))
	e.factAbout(sym, inRange(sym, tr))
	rti := mk(v.Sort, "(fp.roundToIntegral RTZ %s)", v.S)
	var lo T
	hiBits := tr.bits
	if tr.signed {
		lo = fpPow2(v.Sort, true, tr.bits-1)
		hiBits = tr.bits - 1
	} else {
		lo = mk(v.Sort, "(_ +zero %s)", map[Sort]string{SF32: "8 24", SF64: "11 53"}[v.Sort])
	}
	hi1 := fpPow2(v.Sort, false, hiBits)
	okc := mk(SBool, "(and (not (fp.isNaN %[1]s)) (not (fp.isInfinite %[1]s)) (fp.geq %[2]s %[3]s) (fp.lt %[2]s %[4]s))", v.S, rti.S, lo.S, hi1.S)
	back := intToFloat(e, sym, v.Sort)
	e.factAbout(sym, Implies(okc, App(SBool, "fp.eq", back, rti)))
	// link to the integer value for small magnitudes (exactly representable both ways)
	e.factAbout(sym, Implies(okc, mk(SBool, "(= (to_real %s) (fp.to_real %s))", sym.S, rti.S)))
	return sym
}

func realLit(b *big.Int) string {
	if b.Sign() < 0 {
		return "(- " + new(big.Int).Neg(b).String() + ".0)"
	}
	return b.String() + ".0"
}

func (f *Frame) bumpAlloc(to T) {
	f.st["alloc"] = f.enc.define(f.sym("alloc"), to)
}

// ---- maps ----

func (f *Frame) mapParts(mt *types.Map) (h, d string, hs, ds, ks, vs Sort) {
	h, d = f.p.mapArrays(mt)
	ks, vs = f.p.sortOf(mt.Key()), f.p.sortOf(mt.Elem())
	f.enc.declSortOf(vs)
	f.enc.declSortOf(ks)
	hs = ArrSort(SInt, ArrSort(ks, vs))
	ds = ArrSort(SInt, ArrSort(ks, SBool))
	return
}

func (f *Frame) mapHas(st State, mt *types.Map, m, k T) T {
	_, d, _, ds, _, _ := f.mapParts(mt)
	f.enc.stateSort[d] = ds
	return And(Not(Eq(m, Zero)), Select(Select(stOr(f.enc, st, d, ds), m), k))
}

func stOr(e *Enc, st State, name string, sort Sort) T {
	if t, ok := st[name]; ok {
		return t
	}
	if _, sym := st["__symbolic"]; sym {
		// symbolic state (global lemmas): state variables are bound variables of the axiom
		e.stateSort[name] = sort
		v := T{"|" + name + "!sv|", sort}
		e.symStateUsed[name] = v
		return v
	}
	e.stateSort[name] = sort
	return e.declConst(name+"@0", sort)
}

func (f *Frame) mapGet(st State, mt *types.Map, m, k T) T {
	h, _, hs, _, _, vs := f.mapParts(mt)
	f.enc.stateSort[h] = hs
	return Ite(f.mapHas(st, mt, m, k), Select(Select(stOr(f.enc, st, h, hs), m), k), f.enc.zero(vs))
}

func (f *Frame) doLookup(x *ssa.Lookup) {
	if mt, ok := x.X.Type().Underlying().(*types.Map); ok {
		m, k := f.val(x.X), f.val(x.Index)
		if k.Sort == SIface {
			// hashing an uncomparable dynamic key panics
		}
		has := f.mapHas(f.st, mt, m, k)
		v := f.mapGet(f.st, mt, m, k)
		// the trusted element invariant of this map type holds for the values of present keys
		elemInv := func(val T) {
			if cl := f.p.elemInvs[types.TypeString(mt, func(p *types.Package) string { return "" })]; cl != nil {
				tr := &Translator{f: f, cur: f.st, old: f.st, bound: map[string]tv{"v": {val, mt.Elem()}}}
				f.enc.factAbout(val, Implies(has, tr.boolExpr(cl.Expr)))
				f.enc.assumed["data-structure invariant (trusted): values of "+types.TypeString(mt, nil)+": "+cl.Src] = true
			}
		}
		if x.CommaOk {
			vs := f.enc.define(f.sym(x.Name()+"_v"), v)
			hs := f.enc.define(f.sym(x.Name()+"_ok"), has)
			f.typeFacts(vs, mt.Elem())
			f.loadFacts(vs, mt.Elem())
			elemInv(vs)
			f.tuples[x] = []T{vs, hs}
			return
		}
		sym := f.setVal(x, v)
		f.loadFacts(sym, mt.Elem())
		elemInv(sym)
		return
	}
	// string index
	s, idx := f.val(x.X), f.val(x.Index)
	f.oblige("panic", "index", x.Pos(), And(Le(Zero, idx), Lt(idx, App(SInt, "strlen", s))))
	v := f.setVal(x, App(SInt, "byteAt", s, idx))
	f.enc.factAbout(v, And(Le(Zero, v), Le(v, IntLit(255))))
}

func (f *Frame) doMapUpdate(x *ssa.MapUpdate) {
	mt := x.Map.Type().Underlying().(*types.Map)
	m, k, v := f.val(x.Map), f.val(x.Key), f.val(x.Value)
	f.oblige("panic", "nil-map-store", x.Pos(), Not(Eq(m, Zero)))
	f.frameCheckMap(x.Map, m, mt, x.Pos())
	h, d, hs, ds, _, _ := f.mapParts(mt)
	H, D := f.stGet(h, hs), f.stGet(d, ds)
	f.stSet(h, Store(H, m, Store(Select(H, m), k, v)))
	f.stSet(d, Store(D, m, Store(Select(D, m), k, True)))
}

// ---- slices ----

func (f *Frame) doMakeSlice(x *ssa.MakeSlice) {
	l, c := f.val(x.Len), f.val(x.Cap)
	f.oblige("panic", "makeslice-len", x.Pos(), And(Le(Zero, l), Le(l, c)))
	r := f.newRef()
	et := x.Type().Underlying().(*types.Slice).Elem()
	es := f.p.sortOf(et)
	f.enc.declSortOf(es)
	arr := f.p.sliceArray(et)
	as := ArrSort(SInt, ArrSort(SInt, es))
	f.stSet(arr, Store(f.stGet(arr, as), r, ConstArr(ArrSort(SInt, es), f.enc.zero(es))))
	f.setVal(x, MkSlice(r, Zero, l, c))
}

func (f *Frame) doSlice(x *ssa.Slice) {
	var lo, hi, max T
	lo = Zero
	if x.Low != nil {
		lo = f.val(x.Low)
	}
	switch xt := x.X.Type().Underlying().(type) {
	case *types.Slice:
		s := f.val(x.X)
		hi = SLen(s)
		if x.High != nil {
			hi = f.val(x.High)
		}
		max = SCap(s)
		if x.Max != nil {
			max = f.val(x.Max)
		}
		f.oblige("panic", "slice-bounds", x.Pos(), And(Le(Zero, lo), Le(lo, hi), Le(hi, max), Le(max, SCap(s))))
		f.setVal(x, MkSlice(SPtr(s), Add(SOff(s), lo), Sub(hi, lo), Sub(max, lo)))
	case *types.Basic:
		s := f.val(x.X)
		hi = App(SInt, "strlen", s)
		if x.High != nil {
			hi = f.val(x.High)
		}
		f.oblige("panic", "slice-bounds", x.Pos(), And(Le(Zero, lo), Le(lo, hi), Le(hi, App(SInt, "strlen", s))))
		v := f.setVal(x, App(SStr, "substr", s, lo, hi))
		f.enc.factAbout(v, Eq(App(SInt, "strlen", v), Sub(hi, lo)))
	case *types.Pointer:
		at := xt.Elem().Underlying().(*types.Array)
		f.nilCheck(x.X, x.Pos(), "array")
		p := f.val(x.X)
		n := IntLit(at.Len())
		hi = n
		if x.High != nil {
			hi = f.val(x.High)
		}
		f.oblige("panic", "slice-bounds", x.Pos(), And(Le(Zero, lo), Le(lo, hi), Le(hi, n)))
		f.setVal(x, MkSlice(p, lo, Sub(hi, lo), Sub(n, lo)))
		if blv, ok := f.lvs[x.X]; ok && blv.fresh {
			f.lvs[x] = &LV{kind: lvArray, idx: p, fresh: true}
		}
	default:
		panic("slice of " + x.X.Type().String())
	}
}

// ---- range / next ----

func (f *Frame) doRange(x *ssa.Range) {
	name := "IT_" + f.sym(x.Name())
	switch xt := x.X.Type().Underlying().(type) {
	case *types.Map:
		m := f.val(x.X)
		_, d, _, ds, ks, _ := f.mapParts(xt)
		dom := f.enc.define(f.sym(x.Name()+"_dom"), Ite(Eq(m, Zero), ConstArr(ArrSort(ks, SBool), False), Select(f.stGet(d, ds), m)))
		f.iters[x] = &iterInfo{isMap: true, m: m, mt: xt, stvar: name, domain: dom}
		f.stSet(name, ConstArr(ArrSort(ks, SBool), False))
	case *types.Basic:
		s := f.val(x.X)
		f.iters[x] = &iterInfo{m: s, stvar: name}
		f.enc.stateSort[name] = SInt
		f.st[name] = Zero
	default:
		panic("range over " + x.X.Type().String())
	}
	f.vals[x] = Zero
}

func (f *Frame) doNext(x *ssa.Next) {
	it := f.iters[x.Iter]
	if it == nil {
		panic("next on unknown iterator")
	}
	if it.isMap {
		ks, vs := f.p.sortOf(it.mt.Key()), f.p.sortOf(it.mt.Elem())
		seenT := f.stGet(it.stvar, ArrSort(ks, SBool))
		ok := f.enc.declConst(f.enc.fresh(f.sym(x.Name()+"_ok")), SBool)
		k := f.enc.declConst(f.enc.fresh(f.sym(x.Name()+"_k")), ks)
		f.enc.declSortOf(vs)
		// when ok: k is an unvisited key of the domain snapshot; when !ok: every key was visited
		f.enc.factAbout(ok, Implies(ok, And(Select(it.domain, k), Not(Select(seenT, k)))))
		f.enc.addFact(ok.S, fmt.Sprintf("(assert (=> (not %s) (forall ((k!q %s)) (! (=> (select %s k!q) (select %s k!q)) :pattern ((select %s k!q))))))", ok.S, ks, it.domain.S, seenT.S, it.domain.S))
		v := f.enc.define(f.sym(x.Name()+"_v"), f.mapGet(f.st, it.mt, it.m, k))
		f.typeFacts(k, it.mt.Key())
		f.typeFacts(v, it.mt.Elem())
		f.loadFacts(v, it.mt.Elem())
		if cl := f.p.elemInvs[types.TypeString(it.mt, func(p *types.Package) string { return "" })]; cl != nil {
			tr := &Translator{f: f, cur: f.st, old: f.st, bound: map[string]tv{"v": {v, it.mt.Elem()}}}
			f.enc.factAbout(v, Implies(ok, tr.boolExpr(cl.Expr)))
			f.enc.assumed["data-structure invariant (trusted): values of "+types.TypeString(it.mt, nil)+": "+cl.Src] = true
		}
		f.tuples[x] = []T{ok, k, v}
		f.stSet(it.stvar, Ite(ok, Store(seenT, k, True), seenT))
		f.enc.assumed["map iteration visits each key of the entry-time domain exactly once (writes to existing keys only during iteration)"] = true
		return
	}
	// string iteration: position state
	pos := f.stGet(it.stvar, SInt)
	n := App(SInt, "strlen", it.m)
	ok := f.enc.define(f.sym(x.Name()+"_ok"), Lt(pos, n))
	f.enc.declFun("runeAt", []Sort{SStr, SInt}, SInt)
	f.enc.declFun("runeLen", []Sort{SStr, SInt}, SInt)
	r := f.enc.define(f.sym(x.Name()+"_r"), App(SInt, "runeAt", it.m, pos))
	w := App(SInt, "runeLen", it.m, pos)
	f.enc.factAbout(r, And(Le(Zero, r), Le(r, IntLit(0x10FFFF)), Or(Lt(r, IntLit(0xD800)), Lt(IntLit(0xDFFF), r)),
		Le(IntLit(1), w), Le(w, IntLit(4)), Implies(ok, Le(Add(pos, w), n)),
		// single-byte runes are exactly the byte
		Implies(Lt(r, IntLit(0x80)), And(Eq(w, IntLit(1)), Eq(r, App(SInt, "byteAt", it.m, pos)))),
		Implies(Eq(w, IntLit(1)), Or(Lt(r, IntLit(0x80)), Eq(r, IntLit(0xFFFD)))),
		// an ASCII lead byte decodes to itself
		Implies(And(ok, Lt(App(SInt, "byteAt", it.m, pos), IntLit(0x80))), And(Eq(w, IntLit(1)), Eq(r, App(SInt, "byteAt", it.m, pos))))))
	idx := f.enc.define(f.sym(x.Name()+"_i"), pos)
	f.tuples[x] = []T{ok, idx, r}
	f.stSet(it.stvar, Ite(ok, Add(pos, w), pos))
}
