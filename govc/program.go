package main

import (
	"fmt"
	"go/ast"
	"go/token"
	"go/types"
	"os"
	"path/filepath"
	"sort"
	"strings"

	"golang.org/x/tools/go/packages"
	"golang.org/x/tools/go/ssa"
	"golang.org/x/tools/go/ssa/ssautil"
)

type Program struct {
	fset      *token.FileSet
	pkg       *packages.Package
	spkg      *ssa.Package
	prog      *ssa.Program
	repo      string
	contracts map[string]*Contract
	specs     map[string]*SpecFn
	lemmas    map[string]*Lemma
	ifaceCons map[string]*Contract // "Iface.Method" -> contract
	stable    map[string]bool      // spec functions declared stable (see contracts.go)
	pures     map[string]bool
	funcs     map[string]*ssa.Function
	
	tags      map[string]int
	tagTypes  []types.Type
	strLits   map[string]string // literal -> symbol
	strOrder  []string
	srcLines  map[string][]string
	contractSource string
	contractFiles []string
	impls     map[string][]*ssa.Function // "Iface.Method" -> in-package implementations
	ifaceIDs  map[int]types.Type
	fieldInvs map[string]*Clause // "T.f" -> invariant over v (trusted data-structure invariant)
	elemInvs  map[string]*Clause // "[]T" -> invariant over v
	typeInvs  map[string]*Clause // named type -> invariant over every value of that type read from the heap
	appendLemmas map[string][]string // element type -> lemmas instantiated at every append
	usedLemmas map[string]bool
	comparable map[string]bool // interface types whose dynamic types are assumed comparable
	ghostMaps  map[string]string // "#name" -> Go type of the key (ghost counters indexed by a value)
	ghostVals  map[string]string // "#name" -> Go type of the value (default int)
	guards     map[string]guardInfo // heap array "H_T.f" -> mutex guarding it
	lockInvs   map[string]*lockInv  // "T.mu" -> invariant of the state that mutex guards (over self *T)
	interference bool               // concurrent reading of critical sections (see lockOp)
	muIDs      map[string]int
	reachCache map[*ssa.Function]map[*ssa.Function]bool
}

type lockInv struct {
	st    types.Type
	muIdx int
	cl    *Clause
}

type guardInfo struct {
	fIdx    int
	muField string
	st      types.Type
	muIdx   int
	muOff   int64 // offset of the mutex field in the struct that directly contains the guarded field
	stable  bool  // write-once field: an unlocked read is allowed once the field has been seen set under the lock
}

func loadProgram(repo string, overlayContract string, force bool) (*Program, error) {
	cfg := &packages.Config{Mode: packages.LoadAllSyntax, Dir: repo, BuildFlags: []string{"-tags=verif"},
		Env: append(os.Environ(), "GOFLAGS=-mod=mod", "GOPROXY=off", "GOSUMDB=off", "GOTOOLCHAIN=local")}
	p := &Program{repo: repo, contracts: map[string]*Contract{}, specs: map[string]*SpecFn{}, lemmas: map[string]*Lemma{},
		ifaceCons: map[string]*Contract{}, stable: map[string]bool{}, pures: map[string]bool{}, funcs: map[string]*ssa.Function{},
		tags: map[string]int{}, comparable: map[string]bool{}, ghostMaps: map[string]string{}, ghostVals: map[string]string{}, guards: map[string]guardInfo{}, lockInvs: map[string]*lockInv{}, interference: interferenceMode, appendLemmas: map[string][]string{}, usedLemmas: map[string]bool{}, fieldInvs: map[string]*Clause{}, elemInvs: map[string]*Clause{}, typeInvs: map[string]*Clause{}, strLits: map[string]string{}, srcLines: map[string][]string{}, impls: map[string][]*ssa.Function{}}
	// contract files: pkg/ggql/verif_contracts*.go in the tree; the mirror under <verif>/contracts is
	// injected through an overlay for files the tree lacks (or for all of them in development mode)
	mirrorDir := filepath.Dir(overlayContract)
	mirrors, _ := filepath.Glob(filepath.Join(mirrorDir, "verif_contracts*.go"))
	cfg.Overlay = map[string][]byte{}
	var sources []string
	seenBase := map[string]bool{}
	for _, m := range mirrors {
		base := filepath.Base(m)
		seenBase[base] = true
		inTree := filepath.Join(repo, "pkg/ggql", base)
		if _, err := os.Stat(inTree); err != nil || force {
			data, err := os.ReadFile(m)
			if err != nil {
				return nil, err
			}
			cfg.Overlay[inTree] = data
			p.contractFiles = append(p.contractFiles, m)
			sources = append(sources, m+" (overlay)")
		} else {
			p.contractFiles = append(p.contractFiles, inTree)
			sources = append(sources, inTree)
		}
	}
	inTreeFiles, _ := filepath.Glob(filepath.Join(repo, "pkg/ggql/verif_contracts*.go"))
	for _, t := range inTreeFiles {
		if !seenBase[filepath.Base(t)] {
			p.contractFiles = append(p.contractFiles, t)
			sources = append(sources, t)
		}
	}
	if len(p.contractFiles) == 0 {
		return nil, fmt.Errorf("no contract files found")
	}
	p.contractSource = strings.Join(sources, ", ")
	pkgs, err := packages.Load(cfg, "./pkg/ggql")
	if err != nil {
		return nil, err
	}
	if len(pkgs) != 1 {
		return nil, fmt.Errorf("expected one package, got %d", len(pkgs))
	}
	if len(pkgs[0].Errors) > 0 {
		return nil, fmt.Errorf("package errors: %v", pkgs[0].Errors)
	}
	p.pkg = pkgs[0]
	p.fset = pkgs[0].Fset
	prog, spkgs := ssautil.AllPackages(pkgs, ssa.GlobalDebug)
	prog.Build()
	p.prog = prog
	p.spkg = spkgs[0]
	// index functions (including methods)
	for fn := range ssautil.AllFunctions(prog) {
		if fn.Pkg == p.spkg {
			p.funcs[p.fname(fn)] = fn
		}
	}
	return p, nil
}

func (p *Program) fname(fn *ssa.Function) string {
	if fn.Pkg == nil {
		if fn.Object() != nil && fn.Object().Pkg() != nil {
			return fn.RelString(nil)
		}
		return fn.String()
	}
	if fn.Pkg == p.spkg {
		return fn.RelString(p.spkg.Pkg)
	}
	return fn.RelString(nil)
}

func (p *Program) pos(pos token.Pos) string {
	if !pos.IsValid() {
		return "-"
	}
	ps := p.fset.Position(pos)
	return fmt.Sprintf("%s:%d", filepath.Base(ps.Filename), ps.Line)
}

func (p *Program) srcLine(pos token.Pos) string {
	if !pos.IsValid() {
		return ""
	}
	ps := p.fset.Position(pos)
	lines, ok := p.srcLines[ps.Filename]
	if !ok {
		data, err := os.ReadFile(ps.Filename)
		if err == nil {
			lines = strings.Split(string(data), "\n")
		}
		p.srcLines[ps.Filename] = lines
	}
	if ps.Line-1 < len(lines) && ps.Line >= 1 {
		s := strings.TrimSpace(lines[ps.Line-1])
		if len(s) > 60 {
			s = s[:60]
		}
		return s
	}
	return ""
}

// ---- type tags for interface values ----

func (p *Program) tagOf(t types.Type) int {
	key := types.TypeString(t, nil)
	if n, ok := p.tags[key]; ok {
		return n
	}
	n := len(p.tagTypes) + 1
	p.tags[key] = n
	p.tagTypes = append(p.tagTypes, t)
	return n
}

func (p *Program) tagPrelude() string {
	var b strings.Builder
	for i, t := range p.tagTypes {
		fmt.Fprintf(&b, "; tag %d = %s\n", i+1, types.TypeString(t, nil))
	}
	return b.String()
}

// ifaceID: identifier for interface types used by impl(tag, id).
func (p *Program) ifaceID(t types.Type) int {
	return p.tagOf(t) // shares numbering space, harmless
}

func (p *Program) strLit(e *Enc, s string) T {
	if s == "" {
		return T{"str_empty", SStr}
	}
	sym, ok := p.strLits[s]
	if !ok {
		sym = fmt.Sprintf("str_lit%d", len(p.strLits))
		p.strLits[s] = sym
		p.strOrder = append(p.strOrder, s)
	}
	if _, ok := e.decls[sym]; !ok {
		e.decls[sym] = fmt.Sprintf("(declare-const %s Str) ; %q", sym, s)
		e.addFact(sym, fmt.Sprintf("(assert (= (strlen %s) %d))", sym, len(s)))
		if len(s) <= 16 {
			for i := 0; i < len(s); i++ {
				e.addFact(sym, fmt.Sprintf("(assert (= (byteAt %s %d) %d))", sym, i, s[i]))
			}
		}
	}
	return T{sym, SStr}
}

func (p *Program) strPrelude(decls []string) string {
	var lits []string
	for _, d := range decls {
		if strings.HasPrefix(d, "(declare-const str_lit") {
			f := strings.Fields(d)
			lits = append(lits, f[1])
		}
	}
	if len(lits) == 0 {
		return ""
	}
	sort.Strings(lits)
	return "(assert (distinct str_empty " + strings.Join(lits, " ") + "))\n"
}

// funcDecl finds the ast.FuncDecl for a function (for named result lookup).
func (p *Program) funcDecl(fn *ssa.Function) *ast.FuncDecl {
	if fd, ok := fn.Syntax().(*ast.FuncDecl); ok {
		return fd
	}
	return nil
}

// ---- sorts of Go types ----

func (p *Program) sortOf(t types.Type) Sort {
	switch u := t.Underlying().(type) {
	case *types.Basic:
		switch {
		case u.Info()&types.IsBoolean != 0:
			return SBool
		case u.Info()&types.IsInteger != 0:
			return SInt
		case u.Kind() == types.Float32:
			return SF32
		case u.Kind() == types.Float64, u.Kind() == types.UntypedFloat:
			return SF64
		case u.Info()&types.IsString != 0:
			return SStr
		case u.Kind() == types.UnsafePointer:
			return SInt
		case u.Kind() == types.UntypedNil:
			return SInt
		}
	case *types.Pointer, *types.Map, *types.Chan, *types.Signature:
		return SInt
	case *types.Slice:
		return SSlice
	case *types.Interface:
		return SIface
	case *types.Struct, *types.Array:
		return Sort("Opq_" + sanitize(types.TypeString(t, nil)))
	case *types.Tuple:
		return Sort("Tuple")
	}
	return Sort("Opq_" + sanitize(types.TypeString(t, nil)))
}

func sanitize(s string) string {
	var b strings.Builder
	for _, c := range s {
		if c >= 'a' && c <= 'z' || c >= 'A' && c <= 'Z' || c >= '0' && c <= '9' {
			b.WriteRune(c)
		} else {
			b.WriteByte('_')
		}
	}
	return b.String()
}

func isOpaque(s Sort) bool { return strings.HasPrefix(string(s), "Opq_") }

func (e *Enc) declSort(s Sort) {
	if isOpaque(s) {
		key := "sort:" + string(s)
		if _, ok := e.decls[key]; !ok {
			e.decls[key] = ""
		}
	}
}

// zero value of a sort
func (e *Enc) zero(s Sort) T {
	switch s {
	case SBool:
		return False
	case SInt:
		return Zero
	case SF32:
		return T{"(_ +zero 8 24)", SF32}
	case SF64:
		return T{"(_ +zero 11 53)", SF64}
	case SStr:
		return T{"str_empty", SStr}
	case SIface:
		return NilI
	case SSlice:
		return NilSlice
	}
	return e.declConst("zero_"+sortSuffix(s), s)
}

// ---- struct layout ----

func structOf(t types.Type) (*types.Struct, bool) {
	s, ok := t.Underlying().(*types.Struct)
	return s, ok
}

func structSize(s *types.Struct) int64 {
	var n int64
	for i := 0; i < s.NumFields(); i++ {
		n += fieldSize(s.Field(i).Type())
	}
	if n == 0 {
		n = 1
	}
	return n
}

func fieldSize(t types.Type) int64 {
	if s, ok := structOf(t); ok {
		return structSize(s)
	}
	return 1
}

func fieldOffset(s *types.Struct, i int) int64 {
	var n int64
	for j := 0; j < i; j++ {
		n += fieldSize(s.Field(j).Type())
	}
	return n
}

// isMutex: sync.Mutex / sync.RWMutex (by value).
func isMutex(t types.Type) bool {
	n, ok := t.(*types.Named)
	if !ok || n.Obj().Pkg() == nil || n.Obj().Pkg().Path() != "sync" {
		return false
	}
	return n.Obj().Name() == "Mutex" || n.Obj().Name() == "RWMutex"
}

// muAddr: identity of the mutex stored in field i of the struct at base. Plain address arithmetic (base + offset) can
// coincide for mutexes of different objects, so the identity is base*1024 + id with a program-wide id per
// (struct type, field): injective in (base, id) for id < 1024.
// interferenceMode is set by main before the program is loaded (-interference, implied by -prop C20).
var interferenceMode bool

func (p *Program) muID(st types.Type, i int) int {
	if p.muIDs == nil {
		p.muIDs = map[string]int{}
	}
	s, _ := structOf(st)
	key := p.typeName(st) + "." + s.Field(i).Name()
	id, ok := p.muIDs[key]
	if !ok {
		id = len(p.muIDs) + 1
		p.muIDs[key] = id
	}
	return id
}

func (p *Program) muAddr(e *Enc, base T, st types.Type, i int) T {
	id := p.muID(st, i)
	// an uninterpreted pairing function with inverses (injective), rather than arithmetic on addresses
	fn := e.declFun("muid", []Sort{SInt, SInt}, SInt)
	if len(e.facts[fn]) == 0 {
		e.declFun("muid_base", []Sort{SInt}, SInt)
		e.declFun("muid_field", []Sort{SInt}, SInt)
		e.addFact(fn, "(assert (forall ((b!m Int) (i!m Int)) (! (and (= (muid_base (muid b!m i!m)) b!m) (= (muid_field (muid b!m i!m)) i!m)) :pattern ((muid b!m i!m)))))")
	}
	return App(SInt, fn, base, IntLit(int64(id)))
}

// typeName: short name of a (named) struct type for heap array names.
func (p *Program) typeName(t types.Type) string {
	if n, ok := t.(*types.Named); ok {
		if n.Obj().Pkg() == nil || n.Obj().Pkg() == p.pkg.Types {
			return n.Obj().Name()
		}
		return n.Obj().Pkg().Name() + "." + n.Obj().Name()
	}
	if a, ok := t.(*types.Alias); ok {
		return p.typeName(types.Unalias(a))
	}
	return sanitize(types.TypeString(t, nil))
}

func (p *Program) fieldArray(st types.Type, i int) (string, Sort) {
	s, _ := structOf(st)
	f := s.Field(i)
	return "H_" + p.typeName(st) + "." + f.Name(), ArrSort(SInt, p.sortOf(f.Type()))
}

// fieldTypeByArray: Go type of the field behind heap array "H_Type.field" (package types only).
func (p *Program) fieldTypeByArray(name string) types.Type {
	rest := name[2:]
	dot := strings.LastIndex(rest, ".")
	if dot < 0 {
		return nil
	}
	obj := p.pkg.Types.Scope().Lookup(rest[:dot])
	if obj == nil {
		return nil
	}
	st, ok := structOf(obj.Type())
	if !ok {
		return nil
	}
	for i := 0; i < st.NumFields(); i++ {
		if st.Field(i).Name() == rest[dot+1:] {
			return st.Field(i).Type()
		}
	}
	return nil
}
