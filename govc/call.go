package main

import (
	"fmt"
	"os"
	"go/token"
	"go/types"
	"sort"
	"strings"

	"golang.org/x/tools/go/ssa"
)

const maxInlineDepth = 6

func hasLoop(fn *ssa.Function) bool {
	for _, b := range fn.Blocks {
		for _, s := range b.Succs {
			if s.Dominates(b) {
				return true
			}
		}
	}
	return false
}

func (f *Frame) setResults(v ssa.Value, res []T) {
	sig := v.Type()
	if tup, ok := sig.(*types.Tuple); ok {
		if tup.Len() != len(res) {
			panic(fmt.Sprintf("result arity mismatch for %s", v.Name()))
		}
		f.tuples[v] = res
		return
	}
	if len(res) == 1 {
		f.vals[v] = res[0]
	}
}

func (f *Frame) freshResults(v ssa.Value, base string) []T {
	var out []T
	if tup, ok := v.Type().(*types.Tuple); ok {
		for i := 0; i < tup.Len(); i++ {
			out = append(out, f.freshOf(fmt.Sprintf("%s_r%d", base, i), tup.At(i).Type()))
		}
		return out
	}
	return []T{f.freshOf(base, v.Type())}
}

func (f *Frame) doCall(v ssa.Value, ci ssa.CallInstruction) {
	c := ci.Common()
	if c.IsInvoke() {
		f.doInvoke(v, c, ci.Pos())
		return
	}
	switch fn := c.Value.(type) {
	case *ssa.Builtin:
		f.doBuiltin(v, fn, c, ci.Pos())
	case *ssa.Function:
		args := make([]T, len(c.Args))
		for i, a := range c.Args {
			args[i] = f.val(a)
		}
		f.callStatic(v, fn, c.Args, args, ci.Pos())
	case *ssa.MakeClosure:
		if cf, ok := fn.Fn.(*ssa.Function); ok {
			// a closure called where it is made: inlined with its free variables bound to the captured cells
			if cf.Blocks != nil && f.depth < maxInlineDepth && len(cf.FreeVars) == len(fn.Bindings) && !hasLoop(cf) {
				args := make([]T, len(c.Args))
				for i, a := range c.Args {
					args[i] = f.val(a)
				}
				f.pendingFree = fn.Bindings
				res, ok := f.inlineCall(cf, args, ci.Pos())
				f.pendingFree = nil
				if ok {
					f.setResults(v, res)
					return
				}
			}
			f.enc.note("%s: call of closure %s abstracted (results unconstrained)", f.fname, cf.Name())
			f.havocMods(f.p.modsetOf(cf), nil)
		}
		f.setResults(v, f.freshResults(v, v.Name()))
	default:
		f.enc.note("%s: call through function value abstracted (no effect on modelled state assumed)", f.fname)
		f.enc.assumed["calls through function values do not write ggql-owned memory"] = true
		f.bumpAllocFresh()
		f.setResults(v, f.freshResults(v, v.Name()))
	}
}

func (f *Frame) bumpAllocFresh() {
	old := f.alloc()
	nv := f.enc.declConst(f.enc.fresh("alloc@c"), SInt)
	f.enc.factAbout(nv, Le(old, nv))
	f.st["alloc"] = nv
}

// stableAcross: for every spec function declared `stable` whose read arrays were just given new versions that differ from
// the old ones at newly allocated locations only: its value on arguments that existed before is the same in both states.
func (f *Frame) stableAcross(ms ModSet, allowed map[string][]T, pre State, allocPre T) {
	var names []string
	for n := range f.p.stable {
		names = append(names, n)
	}
	sort.Strings(names)
	for _, n := range names {
		sf, ok := f.p.specs[n]
		if !ok || sf.Def != nil || len(sf.Reads) == 0 {
			continue
		}
		touched, okAll := "", true
		var olds, news []T
		var rsorts []Sort
		for _, r := range sf.Reads {
			if strings.HasSuffix(r, "[]") {
				okAll = false
				break
			}
			srt, known := f.enc.stateSort[r]
			if !known {
				srt = f.readSortSafe(r)
				if srt == "" {
					okAll = false
					break
				}
			}
			o := stOr(f.enc, pre, r, srt)
			nw := stOr(f.enc, f.st, r, srt)
			if _, mod := ms[r]; mod && o.S != nw.S {
				freshOnly := ms[r] == ModFresh
				if !freshOnly && allowed != nil {
					if refs, has := allowed[r]; has && len(refs) == 0 {
						freshOnly = true
					}
				}
				if !freshOnly {
					okAll = false
					break
				}
				if touched == "" {
					touched = nw.S
				}
			}
			olds, news, rsorts = append(olds, o), append(news, nw), append(rsorts, srt)
		}
		if !okAll || touched == "" {
			continue
		}
		tr := &Translator{f: f, cur: f.st, old: f.st}
		var psorts []Sort
		var decl, vars, guards []string
		bad := false
		for i, p := range sf.Params {
			ps := f.p.sortOf(tr.goType(p.Type))
			v := fmt.Sprintf("a!s%d", i)
			switch ps {
			case SInt:
				if _, isPtr := tr.goType(p.Type).Underlying().(*types.Basic); !isPtr {
					guards = append(guards, fmt.Sprintf("(<= %s %s)", v, allocPre.S))
				}
			case SIface:
				guards = append(guards, fmt.Sprintf("(=> (ptrlike (tag %s)) (<= (pl_Int %s) %s))", v, v, allocPre.S))
				guards = append(guards, fmt.Sprintf("(=> (slicelike (tag %s)) (<= (sptr (pl_Slice %s)) %s))", v, v, allocPre.S))
			case SBool, SStr:
			default:
				bad = true
			}
			psorts = append(psorts, ps)
			decl = append(decl, fmt.Sprintf("(%s %s)", v, ps))
			vars = append(vars, v)
		}
		if bad {
			continue
		}
		var rs Sort
		if sf.Ret == "real" {
			rs = SReal
		} else {
			rs = f.p.sortOf(tr.goType(sf.Ret))
		}
		f.enc.declSortOf(rs)
		fn := f.enc.declFun("spec_"+sf.Name, append(append([]Sort{}, psorts...), rsorts...), rs)
		app := func(arrs []T) string {
			parts := append([]string{}, vars...)
			for _, a := range arrs {
				parts = append(parts, a.S)
			}
			return "(" + fn + " " + strings.Join(parts, " ") + ")"
		}
		g := "true"
		if len(guards) > 0 {
			g = "(and " + strings.Join(guards, " ") + ")"
		}
		f.enc.addFact(touched, fmt.Sprintf("(assert (forall (%s) (! (=> %s (= %s %s)) :pattern (%s))))", strings.Join(decl, " "), g, app(news), app(olds), app(news)))
		f.enc.assumed["spec function "+sf.Name+" declared stable: unchanged by calls that write only newly allocated locations of the arrays it reads"] = true
	}
}

// havocMods: assign fresh versions to the state variables in ms. Returns pre-state.
// allowed (optional): per array, the only pre-existing indices that may have changed.
func (f *Frame) havocMods(ms ModSet, allowed map[string][]T) State {
	pre := f.st.clone()
	allocPre := f.alloc()
	for _, name := range sortedModKeys(ms) {
		if strings.HasPrefix(name, "IT_") {
			// iteration state (visited set / position of a range loop) is local to a frame: a callee, even a recursive
			// instance of the same function whose own loop state carries the same name, cannot change the caller's
			continue
		}
		sort, ok := f.enc.stateSort[name]
		if !ok {
			// not touched by this encoding so far: it must still get a new version, or a later first
			// read would see the entry version
			if strings.HasPrefix(name, "IT_") {
				continue
			}
			sort = f.readSortSafe(name)
			if sort == "" {
				f.enc.note("%s: state variable %s of unknown sort is not versioned across a call", f.fname, name)
				continue
			}
			f.enc.stateSort[name] = sort
			f.enc.declSortOf(sort)
		}
		old := stLookup(f.enc, pre, name)
		nv := f.enc.declConst(f.enc.fresh(name+"@c"), sort)
		f.st[name] = nv
		isRefArr := strings.HasPrefix(string(sort), "(Array Int")
		switch {
		case name == "alloc":
			f.enc.factAbout(nv, Le(old, nv))
		case ms[name] == ModFresh && isRefArr:
			f.enc.addFact(nv.S, frameFact(nv, old, allocPre, nil))
		case allowed != nil && isRefArr:
			if refs, ok := allowed[name]; ok {
				f.enc.addFact(nv.S, frameFact(nv, old, allocPre, refs))
			}
		}
	}
	for _, name := range sortedModKeys(ms) {
		if name != "alloc" {
			if v, ok := f.st[name]; ok {
				f.enc.verAlloc[v.S] = f.alloc()
				f.refWf(name, v, f.alloc())
			}
		}
	}
	f.stableAcross(ms, allowed, pre, allocPre)
	return pre
}

func (f *Frame) inPackage(fn *ssa.Function) bool {
	if fn.Pkg == f.p.spkg {
		return true
	}
	if fn.Pkg == nil && fn.Object() != nil && fn.Object().Pkg() == f.p.pkg.Types {
		return true
	}
	// synthetic wrappers / bound methods
	if fn.Pkg == nil && fn.Synthetic != "" && fn.Signature.Recv() != nil {
		if n := recvNamed(fn.Signature.Recv().Type()); n != nil && n.Obj().Pkg() == f.p.pkg.Types {
			return true
		}
	}
	return false
}

func recvNamed(t types.Type) *types.Named {
	if p, ok := t.(*types.Pointer); ok {
		t = p.Elem()
	}
	n, _ := t.(*types.Named)
	return n
}

func (f *Frame) callStatic(v ssa.Value, fn *ssa.Function, argVals []ssa.Value, args []T, pos token.Pos) {
	if !f.inPackage(fn) {
		f.callExtern(v, fn, argVals, args, pos)
		return
	}
	name := f.p.fname(fn)
	{
		var ats []types.Type
		for _, prm := range fn.Params {
			ats = append(ats, prm.Type())
		}
		f.atCall(fn.Name(), pos, args, ats)
	}
	con := f.p.contracts[name]
	if con != nil && con.Pure {
		f.setResults(v, []T{f.pureApp(name, fn.Signature, args)})
		return
	}
	// a contract that only claims automatic checks (no postcondition, no frame) says nothing a caller could use:
	// small helpers under such a contract are still inlined at call sites
	bare := con != nil && len(con.Ensures) == 0 && len(con.Assumes) == 0 && !con.HasAssigns && !con.Abstract && len(con.Ghost) == 0 && len(con.Decreases) == 0
	if con != nil && !con.Inline && !(bare && fn.Blocks != nil && f.depth < maxInlineDepth && f.autoInline(fn)) {
		res := f.applyContract(v, con, fn, args, pos, name)
		f.setResults(v, res)
		return
	}
	// inline: wrappers and small leaf helpers (no loops, bounded depth)
	if fn.Blocks != nil && f.depth < maxInlineDepth && (con != nil && con.Inline || f.autoInline(fn)) {
		res, ok := f.inlineCall(fn, args, pos)
		if ok {
			f.setResults(v, res)
			return
		}
	}
	// no contract: havoc the computed modset
	f.enc.note("%s: call to %s without contract: results unconstrained, modset havoced", f.topName(), name)
	if f.frameCallHook != nil {
		f.frameCallHook(f, name, f.p.modsetOf(fn), nil, false, nil, pos)
	}
	f.havocMods(f.p.modsetOf(fn), nil)
	res := f.freshResults(v, v.Name())
	for _, r := range res {
		f.resultFacts(r)
	}
	f.setResults(v, res)
}

func (f *Frame) resultFacts(r T) {
	switch r.Sort {
	case SInt:
	case SSlice:
		f.enc.factAbout(r, Le(SPtr(r), f.alloc()))
	}
}

func (f *Frame) resultFactsTyped(r T, t types.Type) {
	f.loadFactsB(r, t, f.alloc())
}

// autoInline: synthetic wrappers, and loop-free functions of at most a few blocks.
func (f *Frame) autoInline(fn *ssa.Function) bool {
	if fn.Synthetic != "" {
		return true
	}
	if len(fn.Blocks) > 8 {
		return false
	}
	for _, b := range fn.Blocks {
		for _, s := range b.Succs {
			if s.Dominates(b) {
				return false
			}
		}
		for _, in := range b.Instrs {
			switch x := in.(type) {
			case *ssa.Defer, *ssa.Go, *ssa.Select:
				return false
			case ssa.CallInstruction:
				// avoid inlining functions that make further non-trivial calls
				cc := x.Common()
				if cc.IsInvoke() {
					continue
				}
				if cf, ok := cc.Value.(*ssa.Function); ok {
					if cf == fn {
						return false
					}
				}
			}
		}
	}
	for _, s := range f.callStack {
		if s == f.p.fname(fn) {
			return false
		}
	}
	return true
}

func (f *Frame) inlineCall(fn *ssa.Function, args []T, pos token.Pos) ([]T, bool) {
	name := f.p.fname(fn)
	sub := newFrame(f.enc, f.p, fn, f.enc.fresh(f.pfx+"i")+"_", false)
	sub.depth = f.depth + 1
	sub.callStack = append(append([]string{}, f.callStack...), name)
	if len(f.callStack) == 0 {
		sub.callStack = []string{f.fname, name}
	}
	if f.oblPfx != "" {
		sub.oblPfx = f.oblPfx + ">" + name
	} else {
		sub.oblPfx = name
	}
	sub.con = nil
	if f.con != nil {
		// inlined code inherits the claimed automatic checks of the caller
		sub.con = &Contract{Func: name, Checks: f.con.Checks, Loops: map[int]*LoopSpec{}}
	}
	sub.held = f.held
	sub.recMeasure = f.recMeasure
	if f.pendingFree != nil {
		sub.freeBind = map[*ssa.FreeVar]ssa.Value{}
		sub.freeFrom = f
		for i, fv := range fn.FreeVars {
			sub.freeBind[fv] = f.pendingFree[i]
		}
	}
	sub.frameHook, sub.frameMapHook, sub.frameCallHook, sub.frameAppendHook = f.frameHook, f.frameMapHook, f.frameCallHook, f.frameAppendHook
	res, st, path, ok := sub.run(args, f.st, f.curPath())
	if !ok {
		return nil, false
	}
	f.st = st
	f.path = path
	f.pathAcc = nil
	return res, true
}

// applyContract: assert requires, havoc assigns, assume ensures.
func (f *Frame) applyContract(v ssa.Value, con *Contract, fn *ssa.Function, args []T, pos token.Pos, name string) []T {
	env := map[string]tv{}
	sig := fn.Signature
	pi := 0
	if sig.Recv() != nil {
		rn := sig.Recv().Name()
		if rn == "" || rn == "_" {
			rn = "recv"
		}
		env[rn] = tv{args[0], sig.Recv().Type()}
		env["recv"] = tv{args[0], sig.Recv().Type()}
		pi = 1
	}
	for i := 0; i < sig.Params().Len(); i++ {
		prm := sig.Params().At(i)
		env[prm.Name()] = tv{args[pi+i], prm.Type()}
	}
	pre := f.st
	for k, r := range con.Requires {
		tr := &Translator{f: f, env: env, cur: pre, old: pre}
		c := tr.boolExpr(r.Expr)
		o := f.oblige("pre", fmt.Sprintf("%s.%s", name, clauseName(r, k)), pos, c)
		if o != nil {
			o.Props = r.Props
			f.addUses(o, con.Uses, tr)
		}
	}
	if len(con.Decreases) > 0 && len(f.recMeasure) > 0 && f.p.reaches(fn, f.topFn()) {
		// (mutual) recursion: the callee's measure is lexicographically below the caller's entry measure
		if len(con.Decreases) != len(f.recMeasure) {
			panic(trErr{fmt.Sprintf("%s: recursion measures of caller and callee %s have different lengths", f.topName(), name)})
		}
		var now []T
		for _, d := range con.Decreases {
			tr := &Translator{f: f, env: env, cur: pre, old: pre}
			now = append(now, tr.expr(d.Expr).t)
		}
		var disj []T
		for i := range now {
			var conj []T
			for j := 0; j < i; j++ {
				conj = append(conj, Eq(now[j], f.recMeasure[j]))
			}
			conj = append(conj, Lt(now[i], f.recMeasure[i]), Le(Zero, f.recMeasure[i]))
			disj = append(disj, And(conj...))
		}
		if o := f.oblige("term", "rec("+name+")", pos, Or(disj...)); o != nil {
			o.Props = con.Decreases[0].Props
			f.addUses(o, con.Uses, &Translator{f: f, env: env, cur: pre, old: pre})
			if f.con != nil {
				f.addUses(o, f.con.Uses, f.translator(f.cur, nil, f.st, nil))
			}
		}
	}
	ms := f.p.modsetOf(fn)
	var allowed map[string][]T
	var locs []assignLoc
	if con.HasAssigns {
		var err error
		locs, _, err = f.p.assignLocs(con, sig)
		if err != nil {
			panic(trErr{name + ": " + err.Error()})
		}
		allowed = map[string][]T{}
		trp := &Translator{f: f, env: env, cur: pre, old: pre}
		for _, l := range locs {
			if l.all {
				continue
			}
			if l.pred != nil {
				allowed[l.array] = append(allowed[l.array], T{"PRED:" + l.pred(trp, T{"r!PLACE", SInt}).S, SBool})
			} else {
				allowed[l.array] = append(allowed[l.array], l.ref(trp))
			}
			f.enc.stateSort[l.array] = l.sort
		}
		for _, l := range locs {
			if l.all {
				delete(allowed, l.array)
			}
		}
	}
	if f.frameCallHook != nil {
		f.frameCallHook(f, name, ms, locs, con.HasAssigns, &Translator{f: f, env: env, cur: pre, old: pre}, pos)
	}
	old := f.havocMods(ms, allowed)
	var res []T
	if v != nil {
		res = f.freshResults(v, v.Name())
	} else {
		for i := 0; i < sig.Results().Len(); i++ {
			res = append(res, f.freshOf("r", sig.Results().At(i).Type()))
		}
	}
	rnames := resultNames(con, sig)
	for i, r := range res {
		env[rnames[i]] = tv{r, sig.Results().At(i).Type()}
		f.resultFactsTyped(r, sig.Results().At(i).Type())
	}
	f.applyGhost(con, env, old)
	for _, e := range append(append([]*Clause{}, con.Ensures...), con.Assumes...) {
		tr := &Translator{f: f, env: env, cur: f.st, old: old, allocOld: stLookup(f.enc, old, "alloc")}
		f.assume(tr.boolExpr(e.Expr))
	}
	for _, e := range con.Assumes {
		f.enc.assumed["assumed postcondition of "+name+": "+e.Src] = true
	}
	return res
}

func (f *Frame) applyGhost(con *Contract, env map[string]tv, old State) {
	for _, g := range con.Ghost {
		if i := strings.Index(g.Src, "++="); i >= 0 {
			// "#name[key] ++= slice": sequence-valued ghost, the bytes of the slice are appended with spec snoc
			lhs, rhs := strings.TrimSpace(g.Src[:i]), strings.TrimSpace(g.Src[i+3:])
			lb := strings.Index(lhs, "[")
			if lb < 0 {
				panic(trErr{"ghost ++= needs an indexed ghost map: " + g.Src})
			}
			base := strings.TrimSpace(lhs[:lb])
			ke, err1 := parseExpr(strings.TrimSuffix(strings.TrimSpace(lhs[lb+1:]), "]"))
			se, err2 := parseExpr(rhs)
			if err1 != nil || err2 != nil {
				panic(trErr{"bad ghost clause: " + g.Src})
			}
			tr := &Translator{f: f, env: env, cur: old, old: old}
			key := tr.expr(ke).t
			sl := tr.expr(se)
			gt := tr.expr(&EGhost{base})
			cur := stOr(f.enc, old, base, gt.t.Sort)
			f.stSet(base, Store(cur, key, f.seqAppend(tr, Select(cur, key), sl, old)))
			continue
		}
		// "#name += expr"
		parts := strings.SplitN(g.Src, "+=", 2)
		if len(parts) != 2 {
			panic("bad ghost clause: " + g.Src)
		}
		name := strings.TrimSpace(parts[0])
		e, err := parseExpr(strings.TrimSpace(parts[1]))
		if err != nil {
			panic(err)
		}
		tr := &Translator{f: f, env: env, cur: f.st, old: old}
		inc := tr.expr(e).t
		if lb := strings.Index(name, "["); lb >= 0 {
			// indexed ghost counter: #name[key] += n
			ie, err := parseExpr(strings.TrimSuffix(strings.TrimSpace(name[lb+1:]), "]"))
			if err != nil {
				panic(err)
			}
			base := strings.TrimSpace(name[:lb])
			key := tr.expr(ie).t
			f.enc.declSortOf(key.Sort)
			cur := stOr(f.enc, old, base, ArrSort(key.Sort, SInt))
			f.stSet(base, Store(cur, key, Add(Select(cur, key), inc)))
			continue
		}
		cur := stOr(f.enc, old, name, SInt)
		f.stSet(name, Add(cur, inc))
	}
}

// constInt: value of a term that is an integer literal or simple constant arithmetic over literals.
func constInt(t T) (int64, bool) {
	s := strings.TrimSpace(t.S)
	var a, b int64
	if _, err := fmt.Sscanf(s, "(- %d %d)", &a, &b); err == nil {
		return a - b, true
	}
	if _, err := fmt.Sscanf(s, "(+ %d %d)", &a, &b); err == nil {
		return a + b, true
	}
	if n, err := fmt.Sscanf(s, "%d", &a); err == nil && n == 1 && !strings.ContainsAny(s, "( ") {
		return a, true
	}
	return 0, false
}

// seqAppend: q followed by the elements of slice sl (read in state st), as applications of spec snoc. A slice of
// constant length is unfolded; otherwise the result is an uninterpreted seqcat term with its unfoldings for 0..4.
func (f *Frame) seqAppend(tr *Translator, q T, sl tv, st State) T {
	sf, ok := f.p.specs["snoc"]
	if !ok {
		panic(trErr{"ghost ++= needs spec snoc(q <seq type>, b int)"})
	}
	stp, isSl := sl.ty.Underlying().(*types.Slice)
	if !isSl {
		panic(trErr{"ghost ++= needs a slice"})
	}
	es := f.p.sortOf(stp.Elem())
	arr := f.p.sliceArray(stp.Elem())
	inner := Select(stOr(f.enc, st, arr, ArrSort(SInt, ArrSort(SInt, es))), SPtr(sl.t))
	elem := func(i int64) T { return atTerm(f.enc, es, inner, SOff(sl.t), IntLit(i)) }
	chain := func(n int64) T {
		acc := q
		for i := int64(0); i < n; i++ {
			acc = tr.specApp(sf, []tv{{acc, tr.goType(sf.Params[0].Type)}, {elem(i), tyInt}}).t
		}
		return acc
	}
	if n, ok := constInt(SLen(sl.t)); ok && n >= 0 && n <= 8 {
		return chain(n)
	}
	fn := f.enc.declFun("seqcat_"+sortSuffix(q.Sort), []Sort{q.Sort, ArrSort(SInt, es), SInt, SInt}, q.Sort)
	res := f.enc.define(f.sym("seqcat"), App(q.Sort, fn, q, inner, SOff(sl.t), SLen(sl.t)))
	for n := int64(0); n <= 4; n++ {
		f.enc.factAbout(res, Implies(Eq(SLen(sl.t), IntLit(n)), Eq(res, chain(n))))
	}
	return res
}

func resultNames(con *Contract, sig *types.Signature) []string {
	n := sig.Results().Len()
	out := make([]string, n)
	if con != nil && len(con.Results) == n {
		copy(out, con.Results)
		return out
	}
	for i := 0; i < n; i++ {
		r := sig.Results().At(i)
		switch {
		case r.Name() != "" && r.Name() != "_":
			out[i] = r.Name()
		case n == 1:
			out[i] = "res"
		case i == n-1 && types.TypeString(r.Type(), nil) == "error":
			out[i] = "err"
		case n == 2 && i == 0:
			out[i] = "res"
		default:
			out[i] = fmt.Sprintf("res%d", i)
		}
	}
	return out
}

// pureApp: application of an uninterpreted function standing for a pure Go function/method.
func (f *Frame) pureApp(name string, sig *types.Signature, args []T) T {
	sorts := make([]Sort, len(args))
	for i, a := range args {
		sorts[i] = a.Sort
	}
	rs := f.p.sortOf(sig.Results().At(0).Type())
	f.enc.declSortOf(rs)
	fn := f.enc.declFun("pure_"+name, sorts, rs)
	f.enc.assumed["pure "+name+": treated as a side-effect-free function of its arguments"] = true
	if i := strings.LastIndex(name, "."); i >= 0 {
		// autoaxioms triggered by a pure method call x.M(...)
		(&Translator{f: f}).installAutoLemmas(name[i:], fn)
	}
	return f.enc.cachedApp(App(rs, fn, args...))
}

// atCall: class `call` obligations for the caller's `atcall` clauses naming this callee, in the caller's scope and state
// immediately before the call (then assumed, like an assert statement).
func (f *Frame) atCall(callee string, pos token.Pos, args []T, argTypes []types.Type) {
	if f.con == nil || f.oblPfx != "" {
		return
	}
	for k, ac := range f.con.AtCalls {
		if ac.Callee != callee {
			continue
		}
		tr := f.translator(f.cur, nil, f.st, nil)
		// arg0, arg1, ...: the actual arguments of the call (arg0 is the receiver of a method)
		tr.env = map[string]tv{}
		for i := range args {
			if i < len(argTypes) {
				tr.env[fmt.Sprintf("arg%d", i)] = tv{args[i], argTypes[i]}
			}
		}
		nm := fmt.Sprintf("%s.%s", callee, clauseName(ac, k))
		o := f.obligeNamed("call", fmt.Sprintf("%s#%d", nm, f.callOrdinal(callee, pos)), pos, tr.boolExpr(ac.Expr), ac.Props)
		f.addUses(o, f.con.Uses, tr)
	}
}

// callOrdinal: 1-based index of the call at pos among the calls of callee in this function, in source order
func (f *Frame) callOrdinal(callee string, pos token.Pos) int {
	n := 1
	for _, b := range f.fn.Blocks {
		for _, in := range b.Instrs {
			ci, ok := in.(ssa.CallInstruction)
			if !ok {
				continue
			}
			c := ci.Common()
			name := ""
			if c.IsInvoke() {
				name = c.Method.Name()
			} else if sf := c.StaticCallee(); sf != nil {
				name = sf.Name()
			}
			if name == callee && ci.Pos() < pos {
				n++
			}
		}
	}
	return n
}

func (f *Frame) doInvoke(v ssa.Value, c *ssa.CallCommon, pos token.Pos) {
	recv := f.val(c.Value)
	f.oblige("panic", "nil-iface-call("+c.Method.Name()+")", pos, Not(Eq(App(SInt, "tag", recv), Zero)))
	{
		as := []T{recv}
		ats := []types.Type{c.Value.Type()}
		for _, a := range c.Args {
			as = append(as, f.val(a))
			ats = append(ats, a.Type())
		}
		f.atCall(c.Method.Name(), pos, as, ats)
	}
	args := []T{recv}
	for _, a := range c.Args {
		args = append(args, f.val(a))
	}
	key := f.p.ifaceMethodKey(c.Value.Type(), c.Method.Name())
	sig := c.Method.Type().(*types.Signature)
	con := f.p.ifaceCons[key]
	if con != nil && con.Pure {
		if len(con.Requires) > 0 {
			// a pure method may still have a precondition (reflect.Type.In panics on an index out of range)
			env := map[string]tv{"recv": {recv, c.Value.Type()}, "self": {recv, c.Value.Type()}}
			for i := 0; i < sig.Params().Len(); i++ {
				env[sig.Params().At(i).Name()] = tv{args[1+i], sig.Params().At(i).Type()}
			}
			for k, r := range con.Requires {
				tr := &Translator{f: f, env: env, cur: f.st, old: f.st}
				if o := f.oblige("pre", fmt.Sprintf("%s.%s", key, clauseName(r, k)), pos, tr.boolExpr(r.Expr)); o != nil {
					o.Props = r.Props
				}
			}
		}
		f.setResults(v, []T{f.pureApp(key, sig, args)})
		return
	}
	if con != nil {
		// interface contract assumed at dynamic call sites (proved for in-package implementations)
		env := map[string]tv{"recv": {recv, c.Value.Type()}, "self": {recv, c.Value.Type()}}
		for i := 0; i < sig.Params().Len(); i++ {
			env[sig.Params().At(i).Name()] = tv{args[1+i], sig.Params().At(i).Type()}
		}
		pre := f.st
		for k, r := range con.Requires {
			tr := &Translator{f: f, env: env, cur: pre, old: pre}
			o := f.oblige("pre", fmt.Sprintf("%s.%s", key, clauseName(r, k)), pos, tr.boolExpr(r.Expr))
			if o != nil {
				o.Props = r.Props
			}
		}
		if len(con.Decreases) > 0 && len(f.recMeasure) > 0 && f.topFn().Name() == c.Method.Name() {
			// a dynamic call that may re-enter the caller (an implementation of the same interface method calling the
			// method on a part of its input): the callee's measure is lexicographically below the caller's entry measure
			if len(con.Decreases) != len(f.recMeasure) {
				panic(trErr{fmt.Sprintf("%s: recursion measures of caller and interface method %s have different lengths", f.topName(), key)})
			}
			var now []T
			for _, d := range con.Decreases {
				tr := &Translator{f: f, env: env, cur: pre, old: pre}
				now = append(now, tr.expr(d.Expr).t)
			}
			var disj []T
			for i := range now {
				var conj []T
				for j := 0; j < i; j++ {
					conj = append(conj, Eq(now[j], f.recMeasure[j]))
				}
				conj = append(conj, Lt(now[i], f.recMeasure[i]), Le(Zero, f.recMeasure[i]))
				disj = append(disj, And(conj...))
			}
			if o := f.oblige("term", "rec("+key+")", pos, Or(disj...)); o != nil {
				o.Props = con.Decreases[0].Props
				if f.con != nil {
					f.addUses(o, f.con.Uses, f.translator(f.cur, nil, f.st, nil))
				}
			}
		}
		ms := ModSet{}
		f.p.callModsInvoke(c, ms)
		// as for a static call under contract: the locations the interface contract's assigns names are the only old
		// ones havoced, and they are checked against the caller's own frame
		var allowed map[string][]T
		var locs []assignLoc
		if con.HasAssigns {
			var err error
			locs, _, err = f.p.assignLocs(con, sig)
			if err != nil {
				panic(trErr{key + ": " + err.Error()})
			}
			allowed = map[string][]T{}
			trp := &Translator{f: f, env: env, cur: pre, old: pre}
			for _, l := range locs {
				if l.all {
					continue
				}
				if l.pred != nil {
					allowed[l.array] = append(allowed[l.array], T{"PRED:" + l.pred(trp, T{"r!PLACE", SInt}).S, SBool})
				} else {
					allowed[l.array] = append(allowed[l.array], l.ref(trp))
				}
				f.enc.stateSort[l.array] = l.sort
			}
			for _, l := range locs {
				if l.all {
					delete(allowed, l.array)
				}
			}
			if f.frameCallHook != nil {
				f.frameCallHook(f, key, ms, locs, true, &Translator{f: f, env: env, cur: pre, old: pre}, pos)
			}
		}
		old := f.havocMods(ms, allowed)
		res := f.freshResults(v, v.Name())
		rn := resultNames(con, sig)
		for i, r := range res {
			env[rn[i]] = tv{r, sig.Results().At(i).Type()}
			f.resultFactsTyped(r, sig.Results().At(i).Type())
		}
		f.applyGhost(con, env, old)
		for _, e := range append(append([]*Clause{}, con.Ensures...), con.Assumes...) {
			tr := &Translator{f: f, env: env, cur: f.st, old: old, allocOld: stLookup(f.enc, old, "alloc")}
			f.assume(tr.boolExpr(e.Expr))
		}
		f.setResults(v, res)
		f.enc.assumed["interface contract "+key+" assumed at dynamic call sites (user implementations must meet it)"] = true
		return
	}
	f.enc.note("%s: dynamic call %s without contract: results unconstrained", f.topName(), key)
	ms := ModSet{}
	f.p.callModsInvoke(c, ms)
	f.havocMods(ms, nil)
	f.enc.assumed["user implementations of "+key+" do not write ggql-owned memory"] = true
	res := f.freshResults(v, v.Name())
	for _, r := range res {
		f.resultFacts(r)
	}
	f.setResults(v, res)
}

func (p *Program) callModsInvoke(c *ssa.CallCommon, out ModSet) {
	out.add("alloc", ModHard)
	key := p.ifaceMethodKey(c.Value.Type(), c.Method.Name())
	if con, ok := p.ifaceCons[key]; ok && (con.HasAssigns || con.Pure) {
		p.contractMods(con, c.Method.Type().(*types.Signature), out)
		return
	}
	for _, fn := range p.implsOf(c.Value.Type(), c.Method) {
		out.union(p.modsetOf(fn))
	}
}

// ---- builtins ----

func (f *Frame) doBuiltin(v ssa.Value, b *ssa.Builtin, c *ssa.CallCommon, pos token.Pos) {
	switch b.Name() {
	case "len":
		a := f.val(c.Args[0])
		switch c.Args[0].Type().Underlying().(type) {
		case *types.Slice:
			f.setVal(v, SLen(a))
		case *types.Basic:
			f.setVal(v, App(SInt, "strlen", a))
		case *types.Map:
			mt := c.Args[0].Type().Underlying().(*types.Map)
			f.setVal(v, f.mapLen(f.st, mt, a))
		case *types.Pointer:
			at := c.Args[0].Type().Underlying().(*types.Pointer).Elem().Underlying().(*types.Array)
			f.setVal(v, IntLit(at.Len()))
		case *types.Array:
			f.setVal(v, IntLit(c.Args[0].Type().Underlying().(*types.Array).Len()))
		default:
			f.freshVal(v)
		}
	case "cap":
		a := f.val(c.Args[0])
		if a.Sort == SSlice {
			f.setVal(v, SCap(a))
		} else {
			f.freshVal(v)
		}
	case "append":
		f.doAppend(v, c, pos)
	case "copy":
		dst, src := f.val(c.Args[0]), f.val(c.Args[1])
		et := c.Args[0].Type().Underlying().(*types.Slice).Elem()
		es := f.p.sortOf(et)
		arr := f.p.sliceArray(et)
		as := ArrSort(SInt, ArrSort(SInt, es))
		n := f.enc.declConst(f.enc.fresh(f.sym("copyn")), SInt)
		var sl T
		if src.Sort == SStr {
			sl = App(SInt, "strlen", src)
		} else {
			sl = SLen(src)
		}
		f.enc.factAbout(n, And(Le(Zero, n), Le(n, SLen(dst)), Le(n, sl), Or(Eq(n, SLen(dst)), Eq(n, sl))))
		// havoc destination backing array (content copy not modelled precisely)
		H := f.stGet(arr, as)
		na := f.enc.declConst(f.enc.fresh(f.sym("copyarr")), ArrSort(SInt, es))
		f.stSet(arr, Store(H, SPtr(dst), na))
		if src.Sort == SSlice {
			// memmove semantics: the first n destination elements are the first n source elements (read before the
			// move), every other position of the destination array keeps its value
			at := f.atFn(es)
			oldDst, oldSrc := Select(H, SPtr(dst)), Select(H, SPtr(src))
			f.enc.addFact(na.S, fmt.Sprintf("(assert (forall ((i!c Int)) (! (=> (and (<= 0 i!c) (< i!c %[1]s)) (= (%[2]s %[3]s %[4]s i!c) (%[2]s %[5]s %[6]s i!c))) :pattern ((%[2]s %[3]s %[4]s i!c)))))", n.S, at, na.S, SOff(dst).S, oldSrc.S, SOff(src).S))
			f.enc.addFact(na.S, fmt.Sprintf("(assert (forall ((j!c Int)) (! (=> (or (< j!c %[1]s) (<= (+ %[1]s %[2]s) j!c)) (= (select %[3]s j!c) (select %[4]s j!c))) :pattern ((select %[3]s j!c)))))", SOff(dst).S, n.S, na.S, oldDst.S))
		} else {
			f.enc.note("%s: copy() from a string: destination contents abstracted", f.fname)
		}
		f.vals[v] = n
	case "delete":
		mt := c.Args[0].Type().Underlying().(*types.Map)
		m, k := f.val(c.Args[0]), f.val(c.Args[1])
		_, d, _, ds, _, _ := f.mapParts(mt)
		D := f.stGet(d, ds)
		f.stSet(d, Ite(Eq(m, Zero), D, Store(D, m, Store(Select(D, m), k, False))))
	case "print", "println":
	case "min", "max":
		a, bb := f.val(c.Args[0]), f.val(c.Args[1])
		if b.Name() == "min" {
			f.setVal(v, Ite(Le(a, bb), a, bb))
		} else {
			f.setVal(v, Ite(Le(a, bb), bb, a))
		}
	case "recover":
		f.vals[v] = NilI
	default:
		f.enc.note("%s: builtin %s abstracted", f.fname, b.Name())
		if _, ok := v.Type().(*types.Tuple); !ok && v.Type() != nil {
			f.freshVal(v)
		}
	}
}

func (f *Frame) mapLen(st State, mt *types.Map, m T) T {
	_, d, _, ds, ks, _ := f.mapParts(mt)
	fn := f.enc.declFun("mcard_"+sortSuffix(ks), []Sort{ArrSort(ks, SBool)}, SInt)
	dom := Select(stOr(f.enc, st, d, ds), m)
	l := Ite(Eq(m, Zero), Zero, App(SInt, fn, dom))
	sym := f.enc.define(f.sym("maplen"), l)
	f.enc.factAbout(sym, Le(Zero, sym))
	return sym
}

// doAppend: functional model — the result has a fresh backing array holding the old contents
// followed by the new elements (aliasing through spare capacity is not modelled).
func (f *Frame) doAppend(v ssa.Value, c *ssa.CallCommon, pos token.Pos) {
	s := f.val(c.Args[0])
	et := c.Args[0].Type().Underlying().(*types.Slice).Elem()
	es := f.p.sortOf(et)
	f.enc.declSortOf(es)
	arr := f.p.sliceArray(et)
	as := ArrSort(SInt, ArrSort(SInt, es))
	inner := ArrSort(SInt, es)
	f.enc.assumed["append modelled functionally: result uses a fresh backing array (in-place writes into spare capacity are covered by a frame obligation where `check frame` is claimed)"] = true
	if f.frameAppendHook != nil {
		if !isFreshRoot(c.Args[0], func(ssa.Instruction) bool { return true }) {
			f.frameAppendHook(f, arr, s, pos)
		}
	}
	H := f.stGet(arr, as)
	addSrc := c.Args[1]
	// constant-length vararg: slice of a fresh [N]T array
	if sl, ok := addSrc.(*ssa.Slice); ok {
		if al, ok := sl.X.(*ssa.Alloc); ok && sl.Low == nil && sl.High == nil {
			at := al.Type().Underlying().(*types.Pointer).Elem().Underlying().(*types.Array)
			n := at.Len()
			if n <= 8 {
				r := f.newRef()
				src := Select(f.stGet(arr, as), f.val(al))
				// new content: shifted so that offset is 0
				old := Select(H, SPtr(s))
				content := f.enc.declConst(f.enc.fresh(f.sym("app")), inner)
				// content[i] = old[off+i] for i < len ; content[len+j] = src[j]
				f.enc.addFact(content.S, fmt.Sprintf("(assert (forall ((i!a Int)) (! (=> (and (<= 0 i!a) (< i!a %s)) (= (select %s i!a) (%s %s %s i!a))) :pattern ((select %s i!a)))))", SLen(s).S, content.S, f.atFn(es), old.S, SOff(s).S, content.S))
				for j := int64(0); j < n; j++ {
					f.enc.factAbout(content, Eq(Select(content, Add(SLen(s), IntLit(j))), Select(src, IntLit(j))))
				}
				f.stSet(arr, Store(f.stGet(arr, as), r, content))
				nl := Add(SLen(s), IntLit(n))
				capv := f.enc.declConst(f.enc.fresh(f.sym("cap")), SInt)
				f.enc.factAbout(capv, Le(nl, capv))
				res := f.setVal(v, MkSlice(r, Zero, nl, capv))
				f.appendBridge(res, arr, as, H, r, s)
				f.appendLemmaFacts(et, s, f.val(addSrc), res, c, content)
				return
			}
		}
	}
	t := f.val(addSrc)
	r := f.newRef()
	old := Select(H, SPtr(s))
	content := f.enc.declConst(f.enc.fresh(f.sym("app")), inner)
	f.enc.addFact(content.S, fmt.Sprintf("(assert (forall ((i!a Int)) (! (=> (and (<= 0 i!a) (< i!a %s)) (= (select %s i!a) (%s %s %s i!a))) :pattern ((select %s i!a)))))", SLen(s).S, content.S, f.atFn(es), old.S, SOff(s).S, content.S))
	var tl T
	if t.Sort == SStr {
		tl = App(SInt, "strlen", t)
		f.enc.addFact(content.S, fmt.Sprintf("(assert (forall ((k!a Int)) (! (=> (and (<= %[1]s k!a) (< k!a (+ %[1]s %[2]s))) (= (select %[3]s k!a) (byteAt %[4]s (- k!a %[1]s)))) :pattern ((select %[3]s k!a)))))", SLen(s).S, tl.S, content.S, t.S))
	} else {
		tl = SLen(t)
		src := Select(H, SPtr(t))
		// when the appended part is base[lo:], state its elements as elements of base (offset of base, index shifted
		// by lo): quantified facts about base then match without arithmetic on the offset
		boff, shift := SOff(t), ""
		if sl, ok := addSrc.(*ssa.Slice); ok && sl.Low != nil {
			if _, isSl := sl.X.Type().Underlying().(*types.Slice); isSl {
				boff, shift = SOff(f.val(sl.X)), f.val(sl.Low).S
			}
		}
		idx := fmt.Sprintf("(- k!a %s)", SLen(s).S)
		if shift != "" {
			idx = fmt.Sprintf("(+ %s (- k!a %s))", shift, SLen(s).S)
		}
		f.enc.addFact(content.S, fmt.Sprintf("(assert (forall ((k!a Int)) (! (=> (and (<= %[1]s k!a) (< k!a (+ %[1]s %[2]s))) (= (select %[3]s k!a) (%[6]s %[4]s %[5]s %[7]s))) :pattern ((select %[3]s k!a)))))", SLen(s).S, tl.S, content.S, src.S, boff.S, f.atFn(es), idx))
		// the same facts read from the source side (where does element j of the source end up?): gives the solver the
		// witness position in the result for existential goals about kept elements
		lo := "0"
		if shift != "" {
			lo = shift
		}
		if os.Getenv("GOVC_NOINV") == "" {
		f.enc.addFact(content.S, fmt.Sprintf("(assert (forall ((j!a Int)) (! (=> (and (<= %[1]s j!a) (< j!a (+ %[1]s %[2]s))) (= (%[6]s %[3]s 0 (+ %[7]s (- j!a %[1]s))) (%[6]s %[4]s %[5]s j!a))) :pattern ((%[6]s %[4]s %[5]s j!a)))))", lo, tl.S, content.S, src.S, boff.S, f.atFn(es), SLen(s).S))
		f.enc.addFact(content.S, fmt.Sprintf("(assert (forall ((j!a Int)) (! (=> (and (<= 0 j!a) (< j!a %[1]s)) (= (%[5]s %[2]s 0 j!a) (%[5]s %[3]s %[4]s j!a))) :pattern ((%[5]s %[3]s %[4]s j!a)))))", SLen(s).S, content.S, old.S, SOff(s).S, f.atFn(es)))
		}
	}
	f.stSet(arr, Store(f.stGet(arr, as), r, content))
	nl := Add(SLen(s), tl)
	capv := f.enc.declConst(f.enc.fresh(f.sym("cap")), SInt)
	f.enc.factAbout(capv, Le(nl, capv))
	res := f.setVal(v, MkSlice(r, Zero, nl, capv))
	f.appendBridge(res, arr, as, H, r, s)
	if t.Sort == SSlice {
		f.appendBridge(res, arr, as, H, r, t)
	}
	f.appendLemmaFacts(et, s, t, res, c, content)
}

// appendBridge: ground instance of the array store axiom for an operand of append: the operand's backing array is the
// same before and after the result's (fresh) array was installed. A tautology; it puts the select terms of the new
// heap version into the solver's term graph so that facts stated over earlier versions match lemma triggers.
func (f *Frame) appendBridge(res T, arr string, as Sort, before T, r T, operand T) {
	after := f.stGet(arr, as)
	f.enc.factAbout(res, Implies(Not(Eq(SPtr(operand), r)), Eq(Select(after, SPtr(operand)), Select(before, SPtr(operand)))))
}

// appendLemmaFacts: instances of the registered (separately proved) list lemmas for c = append(a, b...).
func (f *Frame) appendLemmaFacts(et types.Type, a, b, c T, cc *ssa.CallCommon, content T) {
	names := f.p.appendLemmas[f.p.typeNameOrString(et)]
	if len(names) == 0 || b.Sort != SSlice {
		return
	}
	st := cc.Args[0].Type()
	for _, n := range names {
		lm := f.p.lemmas[n]
		if lm == nil || len(lm.Params) != 3 {
			panic(trErr{"appendlemma " + n + ": lemma with three slice parameters expected"})
		}
		tr := &Translator{f: f, cur: f.st, old: f.st, allocOld: f.enc.declConst("alloc@0", SInt), appendSite: true}
		tr.bound = map[string]tv{lm.Params[0].Name: {a, st}, lm.Params[1].Name: {b, st}, lm.Params[2].Name: {c, st}}
		body := tr.boolExpr(lm.Body)
		f.enc.factAbout(c, body)
		f.enc.factAbout(content, body)
		f.p.usedLemmas[n] = true
	}
}

// ---- defer ----

type deferred struct {
	call  *ssa.Defer
	path  T
	mu    T
	block *ssa.BasicBlock
}

// doDefer: only `defer mu.Unlock()` is modelled. The deferred release is recorded with the path on which the defer
// statement was executed and performed at RunDefers on exactly those paths.
func (f *Frame) doDefer(x *ssa.Defer) {
	c := x.Common()
	if fn, ok := c.Value.(*ssa.Function); ok && !c.IsInvoke() {
		switch fn.String() {
		case "(*sync.Mutex).Unlock", "(*sync.RWMutex).Unlock", "(*sync.RWMutex).RUnlock":
			f.defers = append(f.defers, deferred{call: x, path: f.curPath(), mu: f.val(c.Args[0]), block: x.Block()})
			return
		}
	}
	f.enc.note("%s: defer of %s not modelled (effects of the deferred call are dropped)", f.fname, c.Value.Name())
}

func (f *Frame) runDefers(x *ssa.RunDefers) {
	for i := len(f.defers) - 1; i >= 0; i-- {
		d := f.defers[i]
		if !(d.block == x.Block() || d.block.Dominates(x.Block())) {
			// conditional defer: release only on the paths that executed it
			h := f.stGet("held", ArrSort(SInt, SBool))
			f.stSet("held", Ite(d.path, Store(h, d.mu, False), h))
			continue
		}
		f.lockOp(d.mu, false, x.Pos())
	}
}

// ---- frame checks (class frame), filled in frames.go ----

func (f *Frame) frameCheck(lv *LV, addr ssa.Value, pos token.Pos) {
	if f.frameHook != nil {
		f.frameHook(f, lv, addr, pos)
	}
}

func (f *Frame) frameCheckMap(mv ssa.Value, m T, mt *types.Map, pos token.Pos) {
	if f.frameMapHook != nil {
		f.frameMapHook(f, mv, m, mt, pos)
	}
}

// cachedApp: one named symbol per distinct application term, so sort facts attach to it.
func (e *Enc) cachedApp(t T) T {
	if e.appCache == nil {
		e.appCache = map[string]T{}
	}
	if strings.Contains(t.S, "!q") {
		return t // mentions a bound variable: cannot be named by a constant
	}
	if s, ok := e.appCache[t.S]; ok {
		return s
	}
	s := e.define("app", t)
	e.appCache[t.S] = s
	return s
}

// atFn: name of the element accessor for sort es (declares it and its axiom on first use).
func (f *Frame) atFn(es Sort) string {
	t := atTerm(f.enc, es, T{"x", ArrSort(SInt, es)}, Zero, Zero)
	_ = t
	return q("at_" + sortSuffix(es))
}

func (f *Frame) readSortSafe(name string) (s Sort) {
	defer func() {
		if r := recover(); r != nil {
			s = ""
		}
	}()
	switch {
	case strings.HasPrefix(name, "Cell_"):
		return ArrSort(SInt, sortFromSuffix(name[5:]))
	case name == "held":
		return ArrSort(SInt, SBool)
	case name == "BUF_len":
		return ArrSort(SInt, SInt)
	case strings.HasPrefix(name, "G_"):
		if obj := f.p.pkg.Types.Scope().Lookup(name[2:]); obj != nil {
			return f.p.sortOf(obj.Type())
		}
		return ""
	}
	return f.readSort(name)
}


// topFn: the function under verification (the outermost frame of an inlining chain).
func (f *Frame) topFn() *ssa.Function {
	if fn := f.p.funcs[f.topName()]; fn != nil {
		return fn
	}
	return f.fn
}

// reaches: can a call of `from` lead (through static calls, closures it creates, or dynamic calls to any in-package
// implementation of the invoked method) to a call of `to`? Used to ask for a recursion measure only where recursion is possible.
func (p *Program) reaches(from, to *ssa.Function) bool {
	if p.reachCache == nil {
		p.reachCache = map[*ssa.Function]map[*ssa.Function]bool{}
	}
	set, ok := p.reachCache[from]
	if !ok {
		set = map[*ssa.Function]bool{}
		var visit func(fn *ssa.Function)
		visit = func(fn *ssa.Function) {
			if fn == nil || set[fn] {
				return
			}
			set[fn] = true
			for _, b := range fn.Blocks {
				for _, in := range b.Instrs {
					if mc, ok := in.(*ssa.MakeClosure); ok {
						if cf, ok := mc.Fn.(*ssa.Function); ok {
							visit(cf)
						}
					}
					ci, ok := in.(ssa.CallInstruction)
					if !ok {
						continue
					}
					cc := ci.Common()
					if cc.IsInvoke() {
						for _, impl := range p.methodsNamed(cc.Method.Name()) {
							visit(impl)
						}
						continue
					}
					if sf := cc.StaticCallee(); sf != nil {
						visit(sf)
					}
				}
			}
		}
		visit(from)
		p.reachCache[from] = set
	}
	return set[to]
}

// methodsNamed: every function of the package that is a method with this name (an over-approximation of the
// implementations a dynamic call can reach).
func (p *Program) methodsNamed(method string) []*ssa.Function {
	var out []*ssa.Function
	for _, fn := range p.funcs {
		if fn.Signature.Recv() != nil && fn.Name() == method {
			out = append(out, fn)
		}
	}
	return out
}
