package main

// Frame conditions. A contract's `assigns` clause lists what a call may write:
//   fresh            objects allocated during the call
//   <param>          the object a map/slice/pointer parameter refers to (all its fields / entries)
//   <param>.<f>...   one field of the struct a pointer parameter refers to
//   <param>.<f>[]    the backing array of the slice (or the map) stored in that field
//   H_T.f, #ghost    a whole state variable
// Everything else that existed before the call is unchanged. Callers get this as a quantified
// frame fact; bodies are checked store by store when the contract says `check frame`.

import (
	"fmt"
	"go/token"
	"go/types"
	"regexp"
	"strings"

	"golang.org/x/tools/go/ssa"
)

type assignLoc struct {
	array string // state variable written
	sort  Sort
	// ref computes the index into array that may be written, from the parameter environment and a state
	ref func(tr *Translator) T
	all bool // whole array
	src string
	// set-valued location: membership predicate and universally quantified check
	pred   func(tr *Translator, r T) T
	forall func(tr *Translator, cond func(T) T) T
}

// assignLocs resolves the assigns clause of con against the signature of fn.
func (p *Program) assignLocs(con *Contract, sig *types.Signature) (locs []assignLoc, fresh bool, err error) {
	params := map[string]types.Type{}
	if sig.Recv() != nil {
		n := sig.Recv().Name()
		if n != "" && n != "_" {
			params[n] = sig.Recv().Type()
		}
		params["recv"] = sig.Recv().Type()
	}
	for i := 0; i < sig.Params().Len(); i++ {
		params[sig.Params().At(i).Name()] = sig.Params().At(i).Type()
	}
	for _, a := range con.Assigns {
		a = strings.TrimSpace(a)
		switch {
		case a == "fresh":
			fresh = true
			continue
		case strings.HasPrefix(a, "H_") || strings.HasPrefix(a, "SH_") || strings.HasPrefix(a, "MH_") || strings.HasPrefix(a, "MD_") || strings.HasPrefix(a, "#") || strings.HasPrefix(a, "G_") || strings.HasPrefix(a, "Cell_") || a == "held" || a == "BUF_len":
			locs = append(locs, assignLoc{array: a, all: true, src: a})
			continue
		}
		if strings.HasSuffix(a, "[*]") {
			// name[*]: the objects (map[string]interface{}) held by the values of map parameter name: what a caller hands in
			// as variables and the callee may coerce in place
			name := strings.TrimSuffix(a, "[*]")
			pt, ok := params[name]
			if !ok {
				return nil, false, fmt.Errorf("assigns: unknown parameter %q", name)
			}
			if _, isMap := pt.Underlying().(*types.Map); !isMap {
				return nil, false, fmt.Errorf("assigns: %q is not a map parameter", name)
			}
			vmt := types.NewMap(types.Typ[types.String], types.NewInterfaceType(nil, nil))
			h, d := p.mapArrays(vmt)
			ks, vs := p.sortOf(vmt.Key()), p.sortOf(vmt.Elem())
			parts := func(tr *Translator) (kv T, guard T, ref T, val T) {
				qcount++
				kv = T{fmt.Sprintf("k!v%d", qcount), SStr}
				saved := tr.bound
				nb := map[string]tv{}
				for k, x := range saved {
					nb[k] = x
				}
				nb["kq9"] = tv{kv, tyString}
				tr.bound = nb
				savedOld := tr.inOld
				tr.inOld = true
				defer func() { tr.bound = saved; tr.inOld = savedOld }()
				mustE := func(src string) Expr {
					e, err := parseExpr(src)
					if err != nil {
						tr.fail("assigns %s: %v", a, err)
					}
					return e
				}
				hasT := tr.boolExpr(mustE("has(" + name + ", kq9)"))
				isM := tr.boolExpr(mustE("is(" + name + "[kq9], map[string]interface{})"))
				ref = tr.expr(mustE("as(" + name + "[kq9], map[string]interface{})")).t
				// pattern: the raw look-up (the translated look-up is an ite over membership, not usable as a pattern)
				mref := tr.expr(mustE(name)).t
				hv := tr.stVar(h, ArrSort(SInt, ArrSort(ks, vs)))
				val = T{fmt.Sprintf("(select (select %s %s) %s)", hv.S, mref.S, kv.S), vs}
				return kv, And(hasT, isM), ref, val
			}
			for _, ar := range []struct {
				n string
				s Sort
			}{{h, ArrSort(SInt, ArrSort(ks, vs))}, {d, ArrSort(SInt, ArrSort(ks, SBool))}} {
				locs = append(locs, assignLoc{array: ar.n, sort: ar.s, src: a,
					pred: func(tr *Translator, r T) T {
						kv, g, ref, val := parts(tr)
						return T{fmt.Sprintf("(exists ((%s Str)) (! (and %s (= %s %s)) :pattern (%s)))", kv.S, g.S, r.S, ref.S, val.S), SBool}
					},
					forall: func(tr *Translator, cond func(T) T) T {
						kv, g, ref, val := parts(tr)
						return T{fmt.Sprintf("(forall ((%s Str)) (! (=> %s %s) :pattern (%s)))", kv.S, g.S, cond(ref).S, val.S), SBool}
					}})
			}
			continue
		}
		if m := reForallLoc.FindStringSubmatch(a); m != nil {
			v, sl, base, fld := m[1], m[2], m[3], m[4]
			slE, e1 := parseExpr(sl)
			baseE, e2 := parseExpr(base)
			if e1 != nil || e2 != nil {
				return nil, false, fmt.Errorf("assigns: cannot parse %q", a)
			}
			// static type of base: evaluate lazily; array name needs the field's struct: resolve through a dry translation later
			loc := assignLoc{src: a}
			mk := func(tr *Translator, idx T) (T, string, Sort) {
				saved := tr.bound
				nb := map[string]tv{}
				for k, x := range saved {
					nb[k] = x
				}
				nb[v] = tv{idx, tyInt}
				tr.bound = nb
				savedOld := tr.inOld
				tr.inOld = true
				b := tr.expr(baseE)
				tr.inOld = savedOld
				tr.bound = saved
				_, arr, asort, err := p.fieldPathInfo(b.ty, []string{fld})
				if err != nil {
					tr.fail("%v", err)
				}
				return b.t, arr, asort
			}
			lenOf := func(tr *Translator) T {
				savedOld := tr.inOld
				tr.inOld = true
				defer func() { tr.inOld = savedOld }()
				return SLen(tr.expr(slE).t)
			}
			// the array is determined by the static type; find it with a probe on the parameter types
			bt, perr := p.staticTypeOf(baseE, params, v)
			if perr != nil {
				return nil, false, perr
			}
			_, arr, asort, ferr := p.fieldPathInfo(bt, []string{fld})
			if ferr != nil {
				return nil, false, ferr
			}
			loc.array, loc.sort = arr, asort
			loc.pred = func(tr *Translator, r T) T {
				qcount++
				iv := T{fmt.Sprintf("%s!q%d", v, qcount), SInt}
				addr, _, _ := mk(tr, iv)
				return T{fmt.Sprintf("(exists ((%s Int)) (and (<= 0 %s) (< %s %s) (= %s %s)))", iv.S, iv.S, iv.S, lenOf(tr).S, r.S, addr.S), SBool}
			}
			loc.forall = func(tr *Translator, cond func(T) T) T {
				qcount++
				iv := T{fmt.Sprintf("%s!q%d", v, qcount), SInt}
				addr, _, _ := mk(tr, iv)
				return T{fmt.Sprintf("(forall ((%s Int)) (! (=> (and (<= 0 %s) (< %s %s)) %s) :pattern (%s)))", iv.S, iv.S, iv.S, lenOf(tr).S, cond(addr).S, addr.S), SBool}
			}
			locs = append(locs, loc)
			continue
		}
		contents := strings.HasSuffix(a, "[]")
		expr := strings.TrimSuffix(a, "[]")
		parts := strings.Split(expr, ".")
		pt, ok := params[parts[0]]
		if !ok {
			return nil, false, fmt.Errorf("assigns: unknown parameter %q", parts[0])
		}
		if len(parts) == 1 && !contents {
			// the object the parameter refers to
			switch u := pt.Underlying().(type) {
			case *types.Map:
				h, d := p.mapArrays(u)
				name := parts[0]
				ks, vs := p.sortOf(u.Key()), p.sortOf(u.Elem())
				for _, ar := range []struct {
					n string
					s Sort
				}{{h, ArrSort(SInt, ArrSort(ks, vs))}, {d, ArrSort(SInt, ArrSort(ks, SBool))}} {
					locs = append(locs, assignLoc{array: ar.n, sort: ar.s, src: a, ref: func(tr *Translator) T { return tr.lookupIdent(name).t }})
				}
			case *types.Slice:
				name := parts[0]
				locs = append(locs, assignLoc{array: p.sliceArray(u.Elem()), sort: ArrSort(SInt, ArrSort(SInt, p.sortOf(u.Elem()))), src: a, ref: func(tr *Translator) T { return SPtr(tr.lookupIdent(name).t) }})
			case *types.Pointer:
				st, ok := structOf(u.Elem())
				if !ok {
					name := parts[0]
					locs = append(locs, assignLoc{array: p.cellArray(u.Elem()), sort: ArrSort(SInt, p.sortOf(u.Elem())), src: a, ref: func(tr *Translator) T { return tr.lookupIdent(name).t }})
					continue
				}
				p.allFields(u.Elem(), st, 0, parts[0], a, &locs)
			case *types.Interface:
				// an interface{} parameter: the map[string]interface{} it may hold (the JSON-like value handed in)
				mt := types.NewMap(types.Typ[types.String], types.NewInterfaceType(nil, nil))
				h, d := p.mapArrays(mt)
				name := parts[0]
				ks, vs := p.sortOf(mt.Key()), p.sortOf(mt.Elem())
				mtag := IntLit(int64(p.tagOf(mt)))
				for _, ar := range []struct {
					n string
					s Sort
				}{{h, ArrSort(SInt, ArrSort(ks, vs))}, {d, ArrSort(SInt, ArrSort(ks, SBool))}} {
					// only when the value is such a map: the payload of any other value is not a map reference
					isMap := func(tr *Translator) T { return Eq(App(SInt, "tag", tr.lookupIdent(name).t), mtag) }
					ref := func(tr *Translator) T { return App(SInt, "pl_Int", tr.lookupIdent(name).t) }
					locs = append(locs, assignLoc{array: ar.n, sort: ar.s, src: a,
						pred:   func(tr *Translator, r T) T { return And(isMap(tr), Eq(r, ref(tr))) },
						forall: func(tr *Translator, cond func(T) T) T { return Implies(isMap(tr), cond(ref(tr))) }})
				}
			default:
				return nil, false, fmt.Errorf("assigns: parameter %q is not a reference", parts[0])
			}
			continue
		}
		// field path
		src := expr
		e, perr := parseExpr(src)
		if perr != nil {
			return nil, false, perr
		}
		sel, ok := e.(*ESel)
		if !ok {
			return nil, false, fmt.Errorf("assigns: bad location %q", a)
		}
		// determine field type statically
		ft, arr, asort, ferr := p.fieldPathInfo(pt, parts[1:])
		if ferr != nil {
			return nil, false, ferr
		}
		if contents {
			switch u := ft.Underlying().(type) {
			case *types.Slice:
				ee := e
				locs = append(locs, assignLoc{array: p.sliceArray(u.Elem()), sort: ArrSort(SInt, ArrSort(SInt, p.sortOf(u.Elem()))), src: a, ref: func(tr *Translator) T {
					saved := tr.inOld
					tr.inOld = true
					defer func() { tr.inOld = saved }()
					return SPtr(tr.expr(ee).t)
				}})
			case *types.Map:
				h, d := p.mapArrays(u)
				ks, vs := p.sortOf(u.Key()), p.sortOf(u.Elem())
				ee := e
				for _, ar := range []struct {
					n string
					s Sort
				}{{h, ArrSort(SInt, ArrSort(ks, vs))}, {d, ArrSort(SInt, ArrSort(ks, SBool))}} {
					locs = append(locs, assignLoc{array: ar.n, sort: ar.s, src: a, ref: func(tr *Translator) T {
						saved := tr.inOld
						tr.inOld = true
						defer func() { tr.inOld = saved }()
						return tr.expr(ee).t
					}})
				}
			default:
				return nil, false, fmt.Errorf("assigns: %q is not a slice or map field", a)
			}
			continue
		}
		base := sel.X
		locs = append(locs, assignLoc{array: arr, sort: asort, src: a, ref: func(tr *Translator) T {
			saved := tr.inOld
			tr.inOld = true
			defer func() { tr.inOld = saved }()
			return tr.addrOfStruct(base, parts)
		}})
	}
	return locs, fresh, nil
}

func (p *Program) allFields(t types.Type, st *types.Struct, off int64, param, src string, locs *[]assignLoc) {
	if !p.ownStruct(t) {
		return
	}
	for i := 0; i < st.NumFields(); i++ {
		ft := st.Field(i).Type()
		fo := off + fieldOffset(st, i)
		if sub, ok := structOf(ft); ok {
			p.allFields(ft, sub, fo, param, src, locs)
			continue
		}
		arr, asort := p.fieldArray(t, i)
		o := off
		*locs = append(*locs, assignLoc{array: arr, sort: asort, src: src, ref: func(tr *Translator) T { return Add(tr.lookupIdent(param).t, IntLit(o)) }})
	}
}

// fieldPathInfo: type, heap array and sort of the last field in a path starting at pointer type pt.
func (p *Program) fieldPathInfo(pt types.Type, path []string) (types.Type, string, Sort, error) {
	cur := pt
	var arr string
	var asort Sort
	for _, name := range path {
		obj, idxs, _ := types.LookupFieldOrMethod(cur, true, p.pkg.Types, name)
		fld, ok := obj.(*types.Var)
		if !ok {
			return nil, "", "", fmt.Errorf("assigns: no field %s in %s", name, cur)
		}
		t := cur
		if ptr, ok := t.Underlying().(*types.Pointer); ok {
			t = ptr.Elem()
		}
		for k, idx := range idxs {
			st, _ := structOf(t)
			if k == len(idxs)-1 {
				arr, asort = p.fieldArray(t, idx)
			}
			t = st.Field(idx).Type()
			if ptr, ok := t.Underlying().(*types.Pointer); ok && k < len(idxs)-1 {
				t = ptr.Elem()
			}
		}
		cur = fld.Type()
	}
	return cur, arr, asort, nil
}

// addrOfStruct: address of the struct directly containing the last field of the path parts (parts[0] is a parameter).
func (tr *Translator) addrOfStruct(base Expr, parts []string) T {
	b := tr.expr(base)
	// b is pointer to (possibly outer) struct; find containing struct address for the last field
	name := parts[len(parts)-1]
	cur := b.ty
	addr := b.t
	ptr, ok := cur.Underlying().(*types.Pointer)
	if !ok {
		tr.fail("assigns: %s is not a pointer", parts[0])
	}
	t := ptr.Elem()
	_, idxs, _ := types.LookupFieldOrMethod(cur, true, tr.f.p.pkg.Types, name)
	for k, idx := range idxs {
		st, _ := structOf(t)
		if k == len(idxs)-1 {
			return addr
		}
		ft := st.Field(idx).Type()
		if _, isStruct := structOf(ft); isStruct {
			addr = Add(addr, IntLit(fieldOffset(st, idx)))
			t = ft
		} else if pp, ok := ft.Underlying().(*types.Pointer); ok {
			arr, asort := tr.f.p.fieldArray(t, idx)
			addr = Select(tr.stVar(arr, asort), addr)
			t = pp.Elem()
		}
	}
	return addr
}

var reForallLoc = regexp.MustCompile(`^forall (\w+) in (.+?): (.+)\.(\w+)$`)

// staticTypeOf: Go type of a contract expression over parameters (and one int-typed bound variable).
func (p *Program) staticTypeOf(e Expr, params map[string]types.Type, boundInt string) (types.Type, error) {
	switch x := e.(type) {
	case *EIdent:
		if x.Name == boundInt {
			return tyInt, nil
		}
		if t, ok := params[x.Name]; ok {
			return t, nil
		}
	case *EIndex:
		bt, err := p.staticTypeOf(x.X, params, boundInt)
		if err != nil {
			return nil, err
		}
		switch u := bt.Underlying().(type) {
		case *types.Slice:
			return u.Elem(), nil
		case *types.Map:
			return u.Elem(), nil
		}
	case *ESel:
		bt, err := p.staticTypeOf(x.X, params, boundInt)
		if err != nil {
			return nil, err
		}
		ft, _, _, err := p.fieldPathInfo(bt, []string{x.F})
		return ft, err
	case *ECall:
		switch x.Fn {
		case "aserr":
			return types.NewPointer(p.pkg.Types.Scope().Lookup("Error").Type()), nil
		case "as":
			tvv, err := types.Eval(p.fset, p.pkg.Types, token.NoPos, x.Raw[0])
			if err == nil {
				return tvv.Type, nil
			}
		}
	}
	return nil, fmt.Errorf("assigns: cannot type expression")
}

// frameFact: (forall r. r <= allocPre && r not in allowed ==> A'[r] = A[r])
func frameFact(nv, old T, allocPre T, allowed []T) string {
	guard := fmt.Sprintf("(<= r!f %s)", allocPre.S)
	for _, a := range allowed {
		if strings.HasPrefix(a.S, "PRED:") {
			guard += " (not " + strings.ReplaceAll(a.S[5:], "r!PLACE", "r!f") + ")"
			continue
		}
		guard += fmt.Sprintf(" (not (= r!f %s))", a.S)
	}
	return fmt.Sprintf("(assert (forall ((r!f Int)) (! (=> (and %s) (= (select %s r!f) (select %s r!f))) :pattern ((select %s r!f)))))", guard, nv.S, old.S, nv.S)
}

// installFrameChecks: class `frame` obligations for the body of a function whose contract has assigns.
func (f *Frame) installFrameChecks(locs []assignLoc, alloc0 T) {
	top := f
	allowedFor := func(arr string) (whole bool, refs []T) {
		for _, l := range locs {
			if l.array != arr {
				continue
			}
			if l.all {
				return true, nil
			}
			tr := &Translator{f: top, cur: top.entrySt, old: top.entrySt, allocOld: alloc0}
			if l.pred != nil {
				refs = append(refs, T{"PRED:" + l.pred(tr, T{"r!PLACE", SInt}).S, SBool})
				continue
			}
			refs = append(refs, l.ref(tr))
		}
		return false, refs
	}
	cond := func(arr string, idx T) T {
		whole, refs := allowedFor(arr)
		if whole {
			return True
		}
		// ref 0 is not a location (a write through nil panics, which is a separate obligation)
		ds := []T{Lt(alloc0, idx), Eq(idx, Zero)}
		for _, r := range refs {
			if strings.HasPrefix(r.S, "PRED:") {
				ds = append(ds, T{strings.ReplaceAll(r.S[5:], "r!PLACE", idx.S), SBool})
				continue
			}
			ds = append(ds, Eq(idx, r))
		}
		return Or(ds...)
	}
	f.frameHook = func(cur *Frame, lv *LV, addr ssa.Value, pos token.Pos) {
		if lv.fresh {
			return
		}
		switch lv.kind {
		case lvField, lvCell, lvElem:
			cur.oblige("frame", "store("+lv.arr+")", pos, cond(lv.arr, lv.idx))
		case lvGlobal:
			whole, _ := allowedFor(lv.arr)
			if !whole {
				cur.oblige("frame", "store-global("+lv.arr+")", pos, False)
			}
		}
	}
	f.frameMapHook = func(cur *Frame, mv ssa.Value, m T, mt *types.Map, pos token.Pos) {
		if isFreshRoot(mv, func(ssa.Instruction) bool { return true }) {
			return
		}
		h, _ := cur.p.mapArrays(mt)
		cur.oblige("frame", "map-store("+h+")", pos, cond(h, m))
	}
	f.frameAppendHook = func(cur *Frame, arr string, s T, pos token.Pos) {
		// append writes in place when there is spare capacity: then the backing array must be owned
		cur.oblige("frame", "append-in-place("+arr+")", pos, Or(Eq(SLen(s), SCap(s)), cond(arr, SPtr(s))))
	}
	f.frameCallHook = func(cur *Frame, callee string, ms ModSet, calleeLocs []assignLoc, hasAssigns bool, tr *Translator, pos token.Pos) {
		if hasAssigns {
			for _, l := range calleeLocs {
				if l.all {
					if whole, _ := allowedFor(l.array); !whole {
						cur.oblige("frame", "call("+callee+")."+l.src, pos, False)
					}
					continue
				}
				if l.forall != nil {
					cur.oblige("frame", "call("+callee+")."+l.src, pos, l.forall(tr, func(r T) T { return cond(l.array, r) }))
					continue
				}
				cur.oblige("frame", "call("+callee+")."+l.src, pos, cond(l.array, l.ref(tr)))
			}
			return
		}
		for _, name := range sortedModKeys(ms) {
			if ms[name] == ModHard && name != "alloc" && !strings.HasPrefix(name, "IT_") && !strings.HasPrefix(name, "#") {
				if whole, _ := allowedFor(name); !whole {
					cur.oblige("frame", "call-unframed("+callee+")."+name, pos, False)
				}
			}
		}
	}
}
