#!/bin/bash
# usage: selftest/mk.sh <name> <property> <expected-obligation-substring> "<description>"   (takes `git -C /repo diff`, then reverts /repo)
set -e
name="$1"; prop="$2"; expect="$3"; desc="$4"
git -C /repo diff > /verif/selftest/mutants/$name.diff
[ -s /verif/selftest/mutants/$name.diff ] || { echo "no diff"; exit 1; }
python3 - "$name" "$prop" "$expect" "$desc" <<'PY'
import json,sys
json.dump({"property":sys.argv[2],"expect":sys.argv[3],"description":sys.argv[4]},open('/verif/selftest/mutants/%s.json'%sys.argv[1],'w'),indent=1)
PY
git -C /repo checkout -- .
echo "mutant $name recorded"
