#!/usr/bin/env python3
"""Must-fail corpus: each mutant is a patch of /repo that breaks a property while compiling.
For every mutant: copy /repo to a scratch dir outside /repo and /verif, apply the patch, run govc on the
copy and require a VIOLATION naming the expected obligation. The scratch copy is removed afterwards.
Usage: selftest/run.py [name-substring ...]"""
import json, os, shutil, subprocess, sys, tempfile, glob
V='/verif'
env=dict(os.environ, GOFLAGS='-mod=mod', GOPROXY='off', GOSUMDB='off', GOTOOLCHAIN='local')
def main():
    pats=sys.argv[1:]
    metas=sorted(glob.glob(V+'/selftest/mutants/*.json'))
    bad=0
    for mf in metas:
        m=json.load(open(mf))
        name=os.path.basename(mf)[:-5]
        if pats and not any(p in name for p in pats): continue
        scratch=tempfile.mkdtemp(prefix='govc-selftest-')
        try:
            dst=os.path.join(scratch,'repo')
            shutil.copytree('/repo',dst,ignore=shutil.ignore_patterns('.git'))
            r=subprocess.run(['patch','-p1','-s','-d',dst,'-i',mf[:-5]+'.diff'],capture_output=True,text=True)
            if r.returncode!=0:
                print('SELFTEST-ERROR',name,'patch does not apply:',r.stdout.strip()[:200]); bad+=1; continue
            b=subprocess.run(['go','build','./...'],cwd=dst,env=env,capture_output=True,text=True)
            if b.returncode!=0:
                print('SELFTEST-ERROR',name,'mutant does not compile',b.stderr[:300]); bad+=1; continue
            vd=os.path.join(scratch,'verif'); os.makedirs(vd)
            shutil.copytree(V+'/contracts',vd+'/contracts'); shutil.copy(V+'/known_findings.json',vd)
            r=subprocess.run([V+'/bin/govc','-repo',dst,'-verif',vd,'-prop',m['property'],'-no-evidence']+(['-dev'] if os.environ.get('GOVC_DEV') else []),env=env,capture_output=True,text=True)
            hits=[l for l in r.stdout.splitlines() if l.startswith('VIOLATION') and m['expect'] in l]
            if r.returncode==1 and hits:
                print('caught  ',name,'->',hits[0].split('obligation=')[1][:110])
            else:
                print('MISSED  ',name,'exit',r.returncode,'expected obligation containing',repr(m['expect']))
                print('\n'.join('    '+l[:200] for l in r.stdout.splitlines()[-6:]))
                bad+=1
        finally:
            shutil.rmtree(scratch,ignore_errors=True)
    print('selftest:', 'OK' if bad==0 else '%d problem(s)'%bad)
    sys.exit(1 if bad else 0)
main()
