// genstubs prints sweep stubs (panic check + shape preconditions derived from the signature) for the functions named on stdin.
// usage: go run tools/genstubs.go /repo/pkg/ggql < names.txt
package main

import (
	"bufio"
	"fmt"
	"go/ast"
	"go/parser"
	"go/token"
	"os"
	"strings"
)

func typeStr(e ast.Expr) string {
	switch t := e.(type) {
	case *ast.Ident:
		return t.Name
	case *ast.StarExpr:
		return "*" + typeStr(t.X)
	case *ast.SelectorExpr:
		return typeStr(t.X) + "." + t.Sel.Name
	case *ast.ArrayType:
		return "[]" + typeStr(t.Elt)
	case *ast.Ellipsis:
		return "[]" + typeStr(t.Elt)
	case *ast.MapType:
		return "map[" + typeStr(t.Key) + "]" + typeStr(t.Value)
	case *ast.InterfaceType:
		return "interface{}"
	}
	return "?"
}

var ifaceTypes = map[string]bool{"Type": true, "Selection": true, "io.Writer": true, "io.Reader": true, "fs.FS": true}

func main() {
	want := map[string]bool{}
	sc := bufio.NewScanner(os.Stdin)
	for sc.Scan() {
		if n := strings.TrimSpace(sc.Text()); n != "" {
			want[n] = true
		}
	}
	fset := token.NewFileSet()
	pkgs, err := parser.ParseDir(fset, os.Args[1], func(fi os.FileInfo) bool {
		return !strings.HasSuffix(fi.Name(), "_test.go") && !strings.HasPrefix(fi.Name(), "verif_")
	}, 0)
	if err != nil {
		panic(err)
	}
	for _, pkg := range pkgs {
		for _, file := range pkg.Files {
			for _, d := range file.Decls {
				fd, ok := d.(*ast.FuncDecl)
				if !ok {
					continue
				}
				name := fd.Name.Name
				if fd.Recv != nil {
					name = "(" + typeStr(fd.Recv.List[0].Type) + ")." + name
				}
				if !want[name] {
					continue
				}
				fmt.Printf("//@ func %s\n//@   props C03\n//@   check panic {C03}\n", name)
				var pres []string
				if fd.Recv != nil {
					pres = append(pres, "recv != nil")
				}
				for _, p := range fd.Type.Params.List {
					ts := typeStr(p.Type)
					for _, n := range p.Names {
						switch {
						case strings.HasPrefix(ts, "*"):
							pres = append(pres, n.Name+" != nil")
						case ts == "Type":
							pres = append(pres, n.Name+" != nil && ptrval("+n.Name+") != 0")
						case ifaceTypes[ts]:
							pres = append(pres, n.Name+" != nil")
						case ts == "int" && (n.Name == "depth" || n.Name == "indent"):
							pres = append(pres, n.Name+" >= 0")
						case strings.HasPrefix(ts, "[]*"):
							pres = append(pres, fmt.Sprintf("forall i int {%s[i]} :: 0 <= i && i < len(%s) ==> %s[i] != nil", n.Name, n.Name, n.Name))
						case ts == "[]Type":
							pres = append(pres, fmt.Sprintf("forall i int {%s[i]} :: 0 <= i && i < len(%s) ==> %s[i] != nil && ptrval(%s[i]) != 0", n.Name, n.Name, n.Name, n.Name))
						}
					}
				}
				for _, p := range pres {
					fmt.Printf("//@   requires %s\n", p)
				}
				fmt.Println()
			}
		}
	}
}
