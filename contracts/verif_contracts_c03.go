//go:build verif

package ggql

//@ -- ================================================================== C03 scanners: panic-freedom sweep
//@ -- Every scanner function is checked for nil dereference, index / slice bounds, failed type assertions and nil-map
//@ -- stores on all paths, for every byte sequence delivered by the reader (the reader's results are unconstrained).
//@ -- the reader handed to a parser is not nil (ParseReader / ParseExecutableReader / ParseValue callers)
//@ fieldinv parser.reader: v != nil

//@ func ParseValue
//@   props C03
//@   check panic {C03}

//@ func ParseValueString
//@   props C03
//@   check panic {C03}

//@ func (*parser).readByte
//@   props C03
//@   check panic {C03}
//@   requires p != nil

//@ func (*parser).putBack
//@   props C03
//@   check panic {C03}
//@   requires p != nil

//@ func (*parser).skipBOM
//@   props C03
//@   check panic {C03}
//@   requires p != nil

//@ func (*parser).skipSpace
//@   props C03
//@   check panic {C03}
//@   requires p != nil

//@ func (*parser).readToken
//@   props C03
//@   check panic {C03}
//@   requires p != nil

//@ func (*parser).readNumberToken
//@   props C03
//@   check panic {C03}
//@   requires p != nil

//@ func (*parser).readType
//@   props C03
//@   check panic {C03}
//@   requires p != nil

//@ func (*parser).readDesc
//@   props C03
//@   check panic {C03}
//@   requires p != nil

//@ func (*parser).readString
//@   props C03
//@   check panic {C03}
//@   requires p != nil

//@ func (*parser).readEscaped
//@   props C03
//@   check panic {C03}
//@   requires p != nil

//@ func (*parser).readValue
//@   props C03
//@   check panic {C03}
//@   requires p != nil

//@ func (*parser).readDirUses
//@   props C03
//@   check panic {C03}
//@   requires p != nil

//@ func (*parser).readDirUse
//@   props C03
//@   check panic {C03}
//@   requires p != nil

//@ func (*parser).readArgValues
//@   props C03
//@   check panic {C03}
//@   requires p != nil

//@ func (*parser).readArgValue
//@   props C03
//@   check panic {C03}
//@   requires p != nil
//@   ensures[shape] err == nil ==> av != nil

//@ func parseSDL
//@   props C03
//@   check panic {C03}
//@   requires root != nil

//@ func (*sdlParser).readDirective
//@   props C03
//@   check panic {C03}
//@   requires p != nil

//@ func (*sdlParser).readEnum
//@   props C03
//@   check panic {C03}
//@   requires p != nil

//@ func (*sdlParser).readEnumValue
//@   props C03
//@   check panic {C03}
//@   requires p != nil
//@   ensures[shape] err == nil ==> ev != nil

//@ func (*sdlParser).readInput
//@   props C03
//@   check panic {C03}
//@   requires p != nil

//@ func (*sdlParser).readInterface
//@   props C03
//@   check panic {C03}
//@   requires p != nil

//@ func (*sdlParser).readScalar
//@   props C03
//@   check panic {C03}
//@   requires p != nil

//@ func (*sdlParser).readSchema
//@   props C03
//@   check panic {C03}
//@   requires p != nil
//@   requires p.root != nil

//@ func (*sdlParser).readObject
//@   props C03
//@   check panic {C03}
//@   requires p != nil

//@ func (*sdlParser).readUnion
//@   props C03
//@   check panic {C03}
//@   requires p != nil

//@ func (*sdlParser).readArgs
//@   props C03
//@   check panic {C03}
//@   requires p != nil
//@   requires args != nil

//@ func (*sdlParser).readArg
//@   props C03
//@   check panic {C03}
//@   requires p != nil
//@   ensures[shape] err == nil ==> arg != nil

//@ func (*sdlParser).readFields
//@   props C03
//@   check panic {C03}
//@   requires p != nil
//@   requires fields != nil

//@ func (*sdlParser).readField
//@   props C03
//@   check panic {C03}
//@   requires p != nil

//@ func (*sdlParser).readInputFields
//@   props C03
//@   check panic {C03}
//@   requires p != nil
//@   requires fields != nil

//@ func (*sdlParser).readInputField
//@   props C03
//@   check panic {C03}
//@   requires p != nil

//@ func (*sdlParser).readImplements
//@   props C03
//@   check panic {C03}
//@   requires p != nil

//@ func parseExe
//@   props C03
//@   check panic {C03}

//@ func (*exeParser).readOp
//@   props C03
//@   check panic {C03}
//@   requires p != nil
//@   requires p.exe != nil
//@   ensures[shape] op != nil

//@ func (*exeParser).readSelectionSet
//@   props C03
//@   check panic {C03}
//@   requires p != nil
//@   requires p.exe != nil

//@ func (*exeParser).readField
//@   props C03
//@   check panic {C03}
//@   requires p != nil
//@   requires p.exe != nil

//@ func (*exeParser).readFragment
//@   props C03
//@   check panic {C03}
//@   requires p != nil
//@   requires p.exe != nil

//@ func (*exeParser).readFragRef
//@   props C03
//@   check panic {C03}
//@   requires p != nil
//@   requires p.exe != nil

//@ func (*exeParser).readInline
//@   props C03
//@   check panic {C03}
//@   requires p != nil
//@   requires p.exe != nil

//@ func (*exeParser).readFragmentDef
//@   props C03
//@   check panic {C03}
//@   requires p != nil
//@   requires p.exe != nil
//@   ensures[shape] err == nil ==> frag != nil

//@ func (*exeParser).readVarDefs
//@   props C03
//@   check panic {C03}
//@   requires p != nil

//@ func (*exeParser).readVarDef
//@   props C03
//@   check panic {C03}
//@   requires p != nil

