//go:build verif

// Contracts for the govc deductive verifier (see /verif/DESIGN.md). Comment-only file: with the
// build tag off it is not part of the package; with the tag on it adds no code.

package ggql

//@ func (*intScalar).CoerceIn
//@   props C04
//@   check panic {C03}
//@   ensures[nil]     v == nil ==> res == nil && err == nil
//@   ensures[int]     is(v, int) && err == nil ==> is(res, int32) && num(res) == num(v)
//@   ensures[int8]    is(v, int8) && err == nil ==> is(res, int32) && num(res) == num(v)
//@   ensures[int16]   is(v, int16) && err == nil ==> is(res, int32) && num(res) == num(v)
//@   ensures[int32]   is(v, int32) && err == nil ==> is(res, int32) && num(res) == num(v)
//@   ensures[int64]   is(v, int64) && err == nil ==> is(res, int32) && num(res) == num(v)
//@   ensures[uint]    is(v, uint) && err == nil ==> is(res, int32) && num(res) == num(v)
//@   ensures[uint8]   is(v, uint8) && err == nil ==> is(res, int32) && num(res) == num(v)
//@   ensures[uint16]  is(v, uint16) && err == nil ==> is(res, int32) && num(res) == num(v)
//@   ensures[uint32]  is(v, uint32) && err == nil ==> is(res, int32) && num(res) == num(v)
//@   ensures[uint64]  is(v, uint64) && err == nil ==> is(res, int32) && num(res) == num(v)
//@   ensures[float64] is(v, float64) && err == nil ==> is(res, int32) && f64(as(res, int32)) == as(v, float64)
//@   ensures[other]   err == nil ==> res == nil || is(res, int32)
//@   ensures[err]     err != nil ==> !is(res, int32) || v != nil
