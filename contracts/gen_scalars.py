#!/usr/bin/env python3
# Generates the per-dynamic-type contracts of the 16 built-in scalar coercion functions.
# Output is pasted into verif_contracts.go between the BEGIN/END markers (run: python3 gen_scalars.py).
import re, sys, os

INTS = ["int","int8","int16","int32","int64","uint","uint8","uint16","uint32","uint64"]
FLOATS = ["float32","float64"]
DYN = INTS + FLOATS + ["bool","string","Symbol","time.Time"]

def same(src, dst):
    """value-preservation clause for src dynamic type -> dst Go type, or None if only conformance is stated"""
    if dst in INTS:
        if src in INTS:
            return "num(res) == num(v)"
        if src in FLOATS:
            fx = "f32" if src == "float32" else "f64"
            return "%s(as(res, %s)) == as(v, %s)" % (fx, dst, src)
        return None
    if dst == "float32":
        if src in INTS or src in FLOATS:
            return "as(res, float32) == f32(as(v, %s))" % src
        return None
    if dst == "float64":
        if src in INTS or src in FLOATS:
            return "as(res, float64) == f64(as(v, %s))" % src
        return None
    if dst == "string":
        if src == "string":
            return "as(res, string) == as(v, string)"
        return None
    if dst == "bool":
        if src == "bool":
            return "as(res, bool) == as(v, bool)"
        return None
    if dst == "time.Time":
        if src == "time.Time":
            return "res == v"
    return None

def conf(dst):
    c = "is(res, %s)" % dst
    if dst in FLOATS:
        c += " && isfinite(as(res, %s))" % dst
    return c

SCALARS = [
  # (receiver, in-type, out-type, props)
  ("intScalar", "int32", "int32"),
  ("int64Scalar", "int64", "int64"),
  ("floatScalar", "float32", "float32"),
  ("float64Scalar", "float64", "float64"),
  ("stringScalar", "string", "string"),
  ("idScalar", "string", "string"),
  ("booleanScalar", "bool", "bool"),
  ("timeScalar", "time.Time", "string"),
]

out = []
for recv, tin, tout in SCALARS:
    for meth, dst, prop in (("CoerceIn", tin, "C04"), ("CoerceOut", tout, "C05")):
        out.append("//@ func (*%s).%s" % (recv, meth))
        out.append("//@   props %s" % prop)
        out.append("//@   check panic {C03}")
        out.append("//@   requires recv != nil")
        out.append("//@   ensures[nil] v == nil ==> res == nil && err == nil")
        for d in DYN:
            s = same(d, dst)
            if recv == "timeScalar":
                s = None  # times are re-formatted; only conformance is stated
            body = conf(dst)
            if s:
                body += " && " + s
            out.append("//@   ensures[%s] is(v, %s) && err == nil ==> %s" % (d.replace(".","_"), d, body))
            if dst in INTS and d in FLOATS:
                # weaker clause kept separately: the result is the truncation of the input, never a wrapped or arbitrary value
                fx = "f32" if d == "float32" else "f64"
                out.append("//@   ensures[%s-range] is(v, %s) && err == nil ==> is(res, %s) && %s(as(res, %s)) == trunc(as(v, %s))" % (d, d, dst, fx, dst, d))
        out.append("//@   ensures[conforms] err == nil ==> res == nil || (%s)" % conf(dst))
        out.append("//@   ensures[nonnil] err == nil && v != nil ==> res != nil")
        pred = "conformsIn" if meth == "CoerceIn" else "conformsOut"
        out.append("//@   ensures[conforms-spec] err == nil ==> %s(res, box(recv))" % pred)
        out.append("//@   use %sDef_%s(res, box(recv))" % (pred, recv))
        if meth == "CoerceOut":
            out.append("//@   ensures[err-null] err != nil ==> res == nil")
        out.append("")

ax = ["//@ -- conformance predicates of the statement (C04: conformsIn, C05: conformsOut), defined per type kind",
      "//@ spec conformsIn(v interface{}, t Type) bool",
      "//@ spec conformsOut(v interface{}, t Type) bool"]
for recv, tin, tout in SCALARS:
    ax.append("//@ axiom conformsInDef_%s(v interface{}, t Type): is(t, *%s) ==> (conformsIn(v, t) <==> (v == nil || (%s)))" % (recv, recv, conf(tin).replace("res", "v")))
    ax.append("//@ axiom conformsOutDef_%s(v interface{}, t Type): is(t, *%s) ==> (conformsOut(v, t) <==> (v == nil || (%s)))" % (recv, recv, conf(tout).replace("res", "v")))
out = ax + [""] + out
text = "\n".join(out)
path = os.path.join(os.path.dirname(os.path.abspath(__file__)), "verif_contracts.go")
src = open(path).read()
b, e = "//@ -- BEGIN generated scalar contracts (gen_scalars.py)\n", "//@ -- END generated scalar contracts\n"
if b in src:
    src = src[:src.index(b)] + b + text + "\n" + e + src[src.index(e)+len(e):]
else:
    src += "\n" + b + text + "\n" + e
open(path, "w").write(src)
